"""C17 — decoders are total on untrusted input. Case generator: per decoder ~70% valid encodings with ONE field
mutated, ~20% valid, ~10% random; truncation at every offset; exhaustive short inputs (digest lines)."""
from vgen import *
from props.codec_common import *

BIN = 'c17'
DRV = 'drv_c17'
TIMEOUT = 1800
RLP_DECS = ['arlp', 'frlp3', 'frlp4', 'rlp']
BIN_DECS = RLP_DECS + ['rlpbits', 'scale', 'scalec', 'ssz', 'borsh', 'borshr', 'borshbits', 'der', 'bincode', 'bincodebits',
                       'be', 'le']
TXT_DECS = ['json', 'jsonbits', 'str']
PG_DECS = ['pg_' + t for t in PG_TYPES] + ['pg_TIMESTAMP']
RULE = ('corpus, then exhaustive short inputs as digest lines (every byte string of length <= 2 for all 35 decoders at widths 0, 1, 7, 12, 16; '
        'every string of length 3 for the header-parsing decoders at width 12 (quick) / 7, 12, 16 (thorough)); then per decoder x 26 widths '
        '(always incl. BYTES%8=0 with BITS%64!=0: 60, 250, 440 and BITS%8!=0) field-aware single mutations of the reference encoding of a '
        'structured value (length byte +-1, long-form length with leading zero, non-canonical size, wrapped single byte, leading zero payload '
        'bytes, excess high bits incl. all-ones at the whole-limb fast path, list-vs-string tag, sign byte missing/redundant/negative, '
        'non-minimal DER/SCALE length forms, trailing bytes, truncation at EVERY offset), plus generic byte mutations and random strings. '
        'The implementation outcome (ok value consumed | err Kind | panic) must equal the model outcome, and the spec predicate judges '
        'the implementation outcome itself. non-trivial = non-empty input; distinct by case hash')
TRUSTED = ['external header/length rules are modelled from the vendored crate sources, not verified: alloy-rlp 0.3.16 / fastrlp 0.3, 0.4 '
           'Header::decode, rlp 0.5.2 Rlp::data / decode_value, parity-scale-codec 3.7 Compact<u32> + Vec<u8> decode, der 0.7.10 Tag/Length/Header/'
           'SliceReader, bincode 1.3 deserialize_bytes, serde_json 1.0 tokenizer (strings with escapes, numbers), borsh read_exact/from_slice, '
           'num-bigint sign/digits',
           'try_from_{be,le}_slice and FromStr/from_base_be enter the decoder models through their value-level specs (C08/C09); both are also '
           'driven directly here (d_be, d_le, d_str)']
ASSUMPTIONS = ['panic-freedom of the IMPLEMENTATION is not a theorem about the (total) model: it is carried by the correspondence — the '
               'implementation outcome must equal the model\'s ok/err outcome and `panic` never matches',
               'only a small error enum is compared (variant names), never messages; SCALE, serde_json, FromStr expose no kind (`err`)',
               'CompactUint::decode at BITS >= 536 panics by documented type-level restriction (assert_compact_supported); modelled as such',
               'float column types (FLOAT4/FLOAT8) are not driven (C18)']


import collections
ERR_KINDS = collections.Counter()   # error kinds / outcome classes hit by the IMPLEMENTATION in this run (evidence)


def _tally(c, i):
    t = c.split(' ')
    if t[0] == 'exh':
        for kv in i.split(' ')[1:]:
            k, _, n = kv.partition('=')
            if n.isdigit():
                ERR_KINDS['exh:' + t[2] + ':' + k] += int(n)
        return
    op = t[0]
    if op.startswith('d_') and i.startswith('err'):
        ERR_KINDS[op + ':' + i] += 1
    elif (op.startswith('d_') and i.startswith('ok')) or i == 'panic':
        ERR_KINDS[op + ':' + i.split(' ')[0]] += 1
    else:
        for tok in i.split(' '):
            if tok.startswith('err') or tok in ('PANIC', 'panic', 'PRIM-MISMATCH', 'DIFF', 'BITS-DIFF'):
                ERR_KINDS[op + ':' + tok] += 1


HOOK_LEGEND = {170: 'alloy-rlp LeadingZero rejection', 171: 'alloy-rlp Overflow rejection', 172: 'DER sign byte stripped', 173: 'DER redundant sign byte rejected', 174: 'SCALE compact generic big-integer arm accepted', 175: 'generic arm rejected by the canonicity threshold', 176: 'postgres BIT padding shift', 177: 'postgres NUMERIC out-of-range digit', 178: 'SSZ out-of-range value', 179: 'rlp (parity) list rejected'}


def extra_checks(tier, rng, findings):
    """no extra checks; reports the tally of implementation outcome kinds collected during the run"""
    kinds = dict(sorted(ERR_KINDS.items()))
    distinct = sorted(set(k.split(':', 1)[1] for k in kinds if not k.startswith('exh:')))
    return {'violations': [], 'known': {}, 'coverage': {'impl_outcome_kinds': kinds, 'distinct_error_kinds': distinct,
                                                        'hook_legend': {str(k): v for k, v in HOOK_LEGEND.items()}}}


def nontrivial(c, i):
    _tally(c, i)
    t = c.split(' ')
    return len(t) > 2 and t[-1] != '-'


def finding_tag(case, impl, model, spec):
    return None


def shrink_candidates(c):
    """exh digest lines shrink to the first failing individual input; decoder lines shrink by dropping bytes"""
    t = c.split(' ')
    if t[0] == 'exh':
        bits, name, pre, depth = t[1], t[2], ('' if t[3] == '-' else t[3]), int(t[4])
        yield 'd_%s %s %s' % (name, bits, pre or '-')
        if depth > 0:
            for b in range(256):
                yield 'exh %s %s %s%02x %d' % (bits, name, pre, b, depth - 1)
        return
    if t[0].startswith('d_') and t[0] != 'd_bigint' and t[2] != '-':
        b = bytes.fromhex(t[2])
        for i in range(len(b)):
            yield '%s %s %s' % (t[0], t[1], hb(b[:i] + b[i + 1:]))
        for i in range(len(b)):
            for nv in (0, 1, 0x7f, 0x80):
                if b[i] > nv:
                    yield '%s %s %s' % (t[0], t[1], hb(b[:i] + bytes([nv]) + b[i + 1:]))


def base_value(rng, bits):
    """mostly in-range structured values, sometimes just out of range (excess high bits)"""
    if rng.random() < 0.25:
        return rng.choice(over_values(rng, bits))
    return struct_value(rng, bits)


def mutants_for(rng, dec, bits):
    v = base_value(rng, bits)
    if dec in RLP_DECS:
        return rlp_mutants(rng, bits, v)
    if dec == 'rlpbits':
        n = nbytes(bits)
        p = be(v, max(n, (v.bit_length() + 7) // 8))
        return [rlp_str(p), rlp_str(p[1:]), rlp_str(b'\0' + p), rlp_str(be(v)), bytes([0xb8, len(p) & 0xff]) + p,
                bytes([0xb9, 0, len(p) & 0xff]) + p, rlp_str(p) + b'\0', bytes([0xc0 + min(len(p), 55)]) + p] + all_truncations(rlp_str(p))
    if dec == 'scale':
        return scale_fixed_mutants(rng, bits, v)
    if dec == 'scalec':
        return scale_compact_mutants(rng, bits, v)
    if dec in ('ssz', 'borsh', 'borshr', 'borshbits', 'le'):
        return fixed_le_mutants(rng, bits, v)
    if dec == 'be':
        return [x[::-1] for x in fixed_le_mutants(rng, bits, v)] + [be(v), b'\0' + be(v)]
    if dec == 'der':
        return der_mutants(rng, bits, v)
    if dec in ('bincode', 'bincodebits'):
        return bincode_mutants(rng, bits, v)
    if dec in ('json', 'jsonbits'):
        return [t.encode() for t in json_forms(rng, bits, v)]
    if dec == 'str':
        return [t.encode() for t in text_forms(rng, bits, v)]
    if dec.startswith('pg_'):
        return pg_mutants(rng, dec[3:], bits, v)
    return []


BOUNDARY_BYTES = [0x00, 0x01, 0x02, 0x7e, 0x7f, 0x80, 0x81, 0xfe, 0xff]


def threshold_cases(bits):
    """inputs sitting exactly on each comparison of the decoders (value = threshold, threshold +- 1)"""
    out = []
    n = nbytes(bits)
    # SCALE compact: mode 1 / 2 lower bounds (63, 2^14-1 accepted by ruint), special arms n = 4, 8, 16, generic arm threshold
    for x in (0, 1, 62, 63, 64, 16383, 16384):
        out.append(('scalec', le((x << 2) | 1, 2) if x < 1 << 14 else None))
    for x in (0, 63, 64, 16382, 16383, 16384, (1 << 30) - 1):
        out.append(('scalec', le((x << 2) | 2, 4)))
    for k, thr in ((4, (1 << 30) - 1), (8, (1 << 56) - 1), (16, (1 << 120) - 1)):
        for x in (thr - 1, thr, thr + 1, (1 << (8 * k)) - 1, 0):
            out.append(('scalec', bytes([3 + ((k - 4) << 2)]) + le(x, k)))
    for k in sorted(set([5, 6, 7, 9, 12, 15, 17, 20, 31, 32, 33, 34, 35, 36, 40, 55, 60, 64, 66, 67, n, n + 1, max(n - 1, 5)])):
        if 5 <= k <= 67 and k not in (8, 16):
            thr = ((1 << (8 * k)) - 1) >> ((69 - k) * 8)
            for x in (thr - 1, thr, thr + 1, 1 << (8 * (k - 1)), (1 << (8 * (k - 1))) - 1):
                if 0 <= x < 1 << (8 * k):
                    out.append(('scalec', bytes([3 + ((k - 4) << 2)]) + le(x, k)))
    # SCALE fixed: Compact<u32> length prefix thresholds with a matching payload
    for ln in (62, 63, 64, 65):
        out.append(('scale', le((ln << 2) | 1, 2) + b'\x01' * ln))
        out.append(('scale', le((ln << 2) | 2, 4) + b'\x01' * ln))
        out.append(('scale', bytes([ln << 2]) + b'\x01' * ln if ln < 64 else None))
    # RLP: 55/56-byte payloads in both header forms, long-form length 55/56
    for ln in (54, 55, 56, 57):
        p = b'\x01' * ln
        for d in RLP_DECS:
            out.append((d, rlp_str(p)))
            out.append((d, bytes([0xb8, ln]) + p))
            out.append((d, bytes([0xb9, 0, ln]) + p))
            if ln < 56:
                out.append((d, bytes([0x80 + ln]) + p))
    # DER: one 0x00 pad before EVERY boundary first byte, at several payload lengths (redundant-sign-byte guard `< 0x80`),
    # the same first bytes without pad (negative guard `>= 0x80`), and two pads
    for plen in sorted(set([1, 2, 3, max(n - 1, 1), n, n + 1])):
        for b0 in BOUNDARY_BYTES:
            body = bytes([b0]) + b'\x01' * (plen - 1)
            out.append(('der', b'\x02' + der_len(plen + 1) + b'\x00' + body))
            out.append(('der', b'\x02' + der_len(plen) + body))
            out.append(('der', b'\x02' + der_len(plen + 2) + b'\x00\x00' + body))
            body2 = bytes([b0]) + b'\xff' * (plen - 1)
            out.append(('der', b'\x02' + der_len(plen + 1) + b'\x00' + body2))
    # RLP: every boundary first payload byte behind a string header (single-byte rule `< 0x80`, leading-zero rule `== 0`)
    for plen in sorted(set([1, 2, 3, max(n - 1, 1), n, n + 1])):
        for b0 in BOUNDARY_BYTES:
            body = bytes([b0]) + b'\x01' * (plen - 1)
            for d in RLP_DECS:
                if plen < 56:
                    out.append((d, bytes([0x80 + plen]) + body))
                out.append((d, rlp_str(body)))
    # fixed-width little-endian: every boundary TOP byte (excess high bits)
    if n:
        for b0 in BOUNDARY_BYTES + [(1 << (bits % 8 or 8)) - 1, ((1 << (bits % 8 or 8))) & 0xff]:
            for d in ('ssz', 'borsh', 'borshr', 'le'):
                out.append((d, b'\x01' * (n - 1) + bytes([b0])))
            out.append(('be', bytes([b0]) + b'\x01' * (n - 1)))
            out.append(('bincode', le(n, 8) + bytes([b0]) + b'\x01' * (n - 1)))
            out.append(('scale', scale_len(n) + b'\x01' * (n - 1) + bytes([b0])))
            out.append(('pg_BYTEA', bytes([b0]) + b'\x01' * (n - 1)))
    # DER: length 0x7f/0x80 in short and long form
    for ln in (0x7e, 0x7f, 0x80, 0x81):
        c = b'\x01' * ln
        out.append(('der', b'\x02' + (bytes([ln]) if ln < 0x80 else b'') + c))
        out.append(('der', b'\x02\x81' + bytes([ln]) + c))
        out.append(('der', b'\x02\x82\x00' + bytes([ln]) + c))
    return ['d_%s %d %s' % (d, bits, hb(b)) for d, b in out if b is not None]


def gen(rng, tier):
    thorough = tier != 'quick'
    decs = BIN_DECS + TXT_DECS + PG_DECS
    heavy = []
    # exhaustive <= 2 bytes for every decoder at five small widths
    for bits in (0, 1, 7, 12, 16):
        for d in decs:
            heavy.append('exh %d %s - 2' % (bits, d))
    # every 3-byte string for the header-parsing decoders
    hdr = ['arlp', 'frlp3', 'frlp4', 'rlp', 'rlpbits', 'scale', 'scalec', 'der', 'ssz', 'borsh', 'pg_INT2', 'pg_JSON', 'pg_JSONB',
           'pg_TEXT', 'json', 'str']
    full = hdr if thorough else ['arlp', 'scalec', 'der']
    some = [] if thorough else ['frlp3', 'frlp4', 'rlp', 'scale', 'json']
    FIRST = [0x00, 0x01, 0x02, 0x22, 0x30, 0x7f, 0x80, 0x81, 0x82, 0x83, 0xb7, 0xb8, 0xb9, 0xbf, 0xc0, 0xc1, 0xf7, 0xf8, 0xfd,
             0xfe, 0xff, 0x03, 0x07, 0x13]
    for bits in ((12,) if not thorough else (7, 12, 16)):
        for d in full:
            for b0 in range(256):
                heavy.append('exh %d %s %02x 2' % (bits, d, b0))
        for d in some:
            for b0 in FIRST:
                heavy.append('exh %d %s %02x 2' % (bits, d, b0))
    # DER INTEGERs of 2 and 3 content octets: all of them (sign-byte rules), and 4 content octets behind a 00 pad
    for bits in ((12, 16) if not thorough else (7, 8, 12, 16, 32, 60)):
        heavy.append('exh %d der 0201 1' % bits)
        heavy.append('exh %d der 0202 2' % bits)
        heavy.append('exh %d der 020300 2' % bits)
        heavy.append('exh %d der 020301 2' % bits)
        heavy.append('exh %d der 02030000 1' % bits)
        heavy.append('exh %d der 0204007f 2' % bits)
        heavy.append('exh %d der 02040080 2' % bits)
    # postgres headers: BIT length words and NUMERIC headers followed by every 2-byte payload
    for bits in (7, 12, 16, 60):
        for ln in (0, 1, 4, 7, 8, 9, 12, 15, 16, 17, 60, 64, 0xffffffff, 0x80000000):
            for ty in ('BIT', 'VARBIT'):
                heavy.append('exh %d pg_%s %08x 2' % (bits, ty, ln))
        for nd, ex in ((0, 0), (1, 0), (1, 1), (1, 2), (1, 0x7fff), (0, 0x7fff), (2, 1), (1, 0x7ffe)):
            heavy.append('exh %d pg_NUMERIC %04x%04x00000000 2' % (bits, nd, ex))
    light = []
    n = 40000 if not thorough else 10000000
    while len(light) < n:
        bits = rng.choice(WIDTHS if rng.random() < 0.6 else [7, 12, 60, 63, 65, 100, 250, 440, 448, 535])
        d = rng.choice(decs)
        ms = mutants_for(rng, d, bits)
        r = rng.random()
        if not ms:
            continue
        valid = ms[0]
        if r < 0.2:
            picks = [valid]
        elif r < 0.9:
            k = min(len(ms), 6 if not thorough else 12)
            picks = rng.sample(ms, k)
            if rng.random() < 0.3:
                picks.append(mut_generic(rng, valid))
        else:
            picks = [bytes(rng.getrandbits(8) for _ in range(rng.randrange(0, nbytes(bits) + 17)))]
        for p in picks:
            light.append('d_%s %d %s' % (d, bits, hb(p)))
    # branch-targeted: every acceptance threshold of the decoders, both sides, in the arm that tests it
    for bits in WIDTHS:
        for c in threshold_cases(bits):
            light.append(c)
    # serde visitor entry points (`sv`): every visitor method x both `is_human_readable` answers, independent of a format
    for bits in [0, 1, 7, 8, 12, 16, 63, 64, 65, 100, 128, 256]:
        nb = nbytes(bits)
        m = 1 << bits
        vals = [0, 1, m - 1 if bits else 0, m, m + 1, struct_value(rng, bits), struct_value(rng, min(bits, 64)), (1 << 63), (1 << 64) - 1, (1 << 127), (1 << 128) - 1]
        for hr in (0, 1):
            for v in vals:
                light.append('sv %d %d u64 %016x' % (bits, hr, v % (1 << 64)))
                light.append('sv %d %d i64 %016x' % (bits, hr, v % (1 << 64)))
                light.append('sv %d %d u128 %032x' % (bits, hr, v % (1 << 128)))
                light.append('sv %d %d i128 %032x' % (bits, hr, v % (1 << 128)))
                light.append('sv %d %d i64 %016x' % (bits, hr, (-(v % (1 << 62)) - 1) % (1 << 64)))
            for f in (0.0, 1.0, 2.0, 255.0, 0.5, 1e300, -1.0, float(m) if bits < 1000 else 1.0, float(max(m - 1, 0)) if bits < 1000 else 1.0):
                import struct as _st
                light.append('sv %d %d f64 %s' % (bits, hr, _st.pack('>d', f).hex()))
                light.append('sv %d %d f32 %s' % (bits, hr, _st.pack('>f', min(max(f, -3e38), 3e38)).hex()))
            # (no `char`: serde's provided `visit_char` forwards to `visit_str`, which is the string parser's business)
            for kind, pay in (('bool', '01'), ('bool', '00'), ('unit', '-'), ('none', '-')):
                light.append('sv %d %d %s %s' % (bits, hr, kind, pay))
            # byte strings and sequences of u8: exact length, one shorter, one / several longer, over-long with leading zeros
            for kind in ('bytes', 'seq'):
                for v in vals[:6]:
                    be = (v % (1 << (8 * nb))).to_bytes(nb, 'big') if nb else b''
                    for pay in (be, be[1:], b'\x00' + be, be + b'\x00', be + b'\x56', be + bytes(3), b'\x00' * 2 + be, bytes(rng.getrandbits(8) for _ in range(nb + rng.randrange(0, 4)))):
                        light.append('sv %d %d %s %s' % (bits, hr, kind, hb(pay)))
    # bigint
    for bits in WIDTHS:
        m = 1 << bits
        for mag in [0, 1, m - 1 if bits else 0, m, m + 1, 1 << (64 * nlimbs(bits)), (1 << (64 * nlimbs(bits))) - 1 if bits else 0,
                    struct_value(rng, bits), m << 64]:
            for sign in ('+', '-', 'u'):
                light.append('d_bigint %d %s %x' % (bits, sign, mag))
    # interleave the heavy digest lines so that parallel chunks are balanced
    step = max(1, len(light) // (len(heavy) + 1))
    hi = 0
    for k, c in enumerate(light):
        if k % step == 0 and hi < len(heavy):
            yield heavy[hi]
            hi += 1
        yield c
    for c in heavy[hi:]:
        yield c


def translate(repo, lean):
    """(G) mode boundaries and prefix constants of the SCALE compact and alloy-rlp support code, re-extracted on every run"""
    return translate_codec_tables(repo, lean)
