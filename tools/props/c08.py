"""C08 — byte encodings: case generator.

Encoders on structured values; decoders on every length 0..BYTES+8 with: valid, leading/trailing zeros,
FULL-LENGTH WITH EXCESS HIGH BITS (the whole-limb fast path at BYTES%8=0 with a non-trivial mask, and the
accumulation path at BITS%8!=0), one byte too long, random; exhaustive byte strings at tiny widths."""
import sys
from vgen import *

BIN = 'c08'
DRV = 'drv_c08'
WIDTHS = [0, 1, 2, 3, 4, 5, 6, 7, 8, 9, 12, 15, 16, 17, 20, 24, 31, 32, 33, 56, 57, 60, 63, 64, 65, 72, 96, 100, 120, 121, 127,
          128, 129, 160, 192, 200, 250, 255, 256, 257, 320, 384, 440, 505, 512, 521, 1024, 4090, 4096]
# BYTES % 8 == 0 and BITS % 64 != 0: the fast path meets a non-trivial top-limb mask
FAST_MASKED = [b for b in WIDTHS if b > 0 and ((b + 7) // 8) % 8 == 0 and b % 64 != 0]
ENC1 = ['as_le_slice', 'as_le_bytes', 'le_vec', 'le_arr', 'be_vec', 'be_arr', 'as_le_trim', 'le_trim', 'be_trim', 'rt']
ENC_BAD = ['le_arr_bad', 'be_arr_bad']
COPY = ['copy_le', 'copy_be', 'ccopy_le', 'ccopy_be']
DEC = ['try_le', 'try_be', 'from_le_slice', 'from_be_slice']
DEC_ARR = ['from_le_bytes', 'from_be_bytes']
RULE = ('corpus; exhaustive byte strings (lengths 0..2, plus structured length 3) through try_from_{le,be}_slice at tiny widths; '
        'decoders at every length 0..BYTES+8 x {valid, zero-padded, full-length with excess high bits, MAX, one byte too long, random} '
        'with extra weight on widths where BYTES mod 8 = 0 and BITS mod 64 != 0 (%s) and BITS mod 8 != 0; encoders/copies/round trips on value classes '
        'and buffer lengths around BYTES; non-trivial = width>0 and a non-zero byte/value; distinct by case hash' % FAST_MASKED)
TRUSTED = ['little-endian host (cfg(target_endian="big") arms are not modelled)']
ASSUMPTIONS = ['panic-freedom of the implementation is observed on the generated cases (the model\'s totality is proved)']


def nbytes(bits):
    return (bits + 7) // 8


def bs(b):
    return bytes(b).hex() if len(b) else '-'


def nontrivial(c, i):
    t = c.split(' ')
    return t[1] != '0' and any(x.strip('0') not in ('', '-') for x in t[2:])


def finding_tag(case, impl, model, spec):
    return None


def enc(v, n, le):
    """n-byte encoding of v (must fit)"""
    b = v.to_bytes(n, 'little')
    return b if le else b[::-1]


def dec_cases(rng, bits, le):
    """byte strings for the decoders of one width/endianness"""
    nb = nbytes(bits)
    m = 1 << bits
    full = 1 << (8 * nb)
    out = []
    lens = list(range(0, nb + 9)) if nb <= 24 else sorted(set(
        [0, 1, 2, 7, 8, 9, 15, 16, 17, nb // 2] + list(range(nb - 9, nb + 9))))
    L = rng.choice(lens)
    # valid value zero-padded to L (when it fits in L bytes)
    k = min(L, nb)
    v = value(rng, min(bits, 8 * k))
    if L <= nb:
        out.append(enc(v, L, le))
    # minimal-length form
    out.append(enc(v, (v.bit_length() + 7) // 8, le))
    # random bytes of length L
    out.append(bytes(rng.getrandbits(8) for _ in range(L)))
    # full length boundaries
    out.append(enc(m - 1 if bits else 0, nb, le))
    if full > m:
        # excess high bits at full length
        hi = rng.randrange(m, full)
        for w in (m, m + value(rng, bits), full - 1, hi, m | value(rng, bits), (full - 1) ^ value(rng, bits)):
            out.append(enc(w % full if w >= m else m, nb, le))
        # just the lowest excess bit / just the highest excess bit
        out.append(enc(m, nb, le))
        out.append(enc(full >> 1, nb, le))
    # one byte too long: leading (most significant) extra byte zero / non-zero
    for extra in (0, 1, rng.getrandbits(8)):
        b = enc(value(rng, bits), nb, True) + bytes([extra])
        out.append(b if le else b[::-1])
    # several bytes too long, all zero
    out.append(bytes(nb + rng.randrange(1, 9)))
    # shorter than full with all ones
    if nb > 0:
        k = rng.randrange(nb + 1)
        out.append(b'\xff' * k)
    return out


def exhaustive(tier):
    """all byte strings of length 0..2 (and a structured slice of length 3) at tiny widths"""
    ws1 = [0, 1, 2, 3, 7, 8]            # BYTES <= 1
    ws2 = [9, 12] if tier == 'quick' else [9, 12, 15, 16]
    special = [0, 1, 2, 0x0f, 0x10, 0x1f, 0x7f, 0x80, 0xfe, 0xff]
    for bits in ws1:
        for op in ('try_le', 'try_be'):
            yield '%s %d -' % (op, bits)
            for a in range(256):
                yield '%s %d %02x' % (op, bits, a)
            for a in special:
                for b in special:
                    yield '%s %d %02x%02x' % (op, bits, a, b)
    for bits in ws2:
        for op in ('try_le', 'try_be'):
            yield '%s %d -' % (op, bits)
            for a in range(256):
                yield '%s %d %02x' % (op, bits, a)
            for a in range(256):
                for b in range(256):
                    yield '%s %d %02x%02x' % (op, bits, a, b)
            for a in special:
                for b in special:
                    for c in special:
                        yield '%s %d %02x%02x%02x' % (op, bits, a, b, c)
    if tier != 'quick':
        # 3-byte strings at width 17/20/24 (BYTES = 3): all (first, last) bytes x special middle bytes
        for bits in (17, 20, 24):
            for op in ('try_le', 'try_be'):
                for a in range(256):
                    for c in range(256):
                        for b in special:
                            yield '%s %d %02x%02x%02x' % (op, bits, a, b, c)
    # every value at tiny widths through every encoder
    for bits in [0, 1, 2, 3, 7, 8, 9, 12]:
        for v in range(1 << bits):
            if bits > 8 and v % 7 and v < (1 << bits) - 300 and v > 300:
                continue
            for op in ENC1:
                yield '%s %d %x' % (op, bits, v)


def _gen(rng, tier):
    n = 30000 if tier == 'quick' else 5000000
    yield from exhaustive(tier)
    # every width: the fixed boundary set (deterministic part)
    for bits in WIDTHS:
        nb = nbytes(bits)
        m = 1 << bits
        for le in (True, False):
            t, f, fb = ('try_le', 'from_le_slice', 'from_le_bytes') if le else ('try_be', 'from_be_slice', 'from_be_bytes')
            full = 1 << (8 * nb)
            vals = [0, m - 1 if bits else 0] + ([m, full - 1, m + 1] if full > m else [])
            for v in vals:
                b = enc(v % full if full > 1 else 0, nb, le)
                for op in (t, f, fb):
                    yield '%s %d %s' % (op, bits, bs(b))
            # wrong array size
            yield '%s %d %s' % (fb, bits, bs(bytes(nb + 1)))
            # too long by one with zero lead
            yield '%s %d %s' % (t, bits, bs(bytes(nb + 1)))
        for op in ENC_BAD:
            yield '%s %d %x' % (op, bits, value(rng, bits))
        for L in range(0, nb + 3) if nb < 12 else [0, nb - 8, nb - 1, nb, nb + 1, nb + 8]:
            buf = bytes(rng.getrandbits(8) for _ in range(L))
            for op in COPY:
                yield '%s %d %x %s' % (op, bits, (m - 1) if bits else 0, bs(buf))
    k = 0
    weights = WIDTHS + FAST_MASKED * 4 + [7, 12, 100, 9, 15, 17, 33, 129, 521] * 2
    while k < n:
        bits = rng.choice(weights)
        nb = nbytes(bits)
        r = rng.random()
        if r < 0.55:
            le = rng.random() < 0.5
            for b in dec_cases(rng, bits, le):
                op = rng.choice(DEC[0::2] if le else DEC[1::2]) if rng.random() < 0.85 else ('try_le' if le else 'try_be')
                if len(b) in (nb, nb + 1) and rng.random() < 0.15:
                    op = 'from_le_bytes' if le else 'from_be_bytes'
                yield '%s %d %s' % (op, bits, bs(b))
                k += 1
        elif r < 0.85:
            v = value(rng, bits)
            yield '%s %d %x' % (rng.choice(ENC1), bits, v)
            k += 1
        else:
            v = value(rng, bits)
            L = rng.choice([0, max(0, nb - 8), max(0, nb - 1), nb, nb, nb + 1, nb + 8, rng.randrange(nb + 9)])
            buf = bytes(rng.choice([0, 0xaa, 0xff, rng.getrandbits(8)]) for _ in range(L))
            yield '%s %d %x %s' % (rng.choice(COPY), bits, v, bs(buf))
            k += 1


# ----------------------------------------------------------------------------------------------
# which decoder path / outcome class each generated case exercises (reported in the evidence)
CLASSES = {}


def classify(c):
    t = c.split(' ')
    op = t[0]
    if op not in ('try_le', 'try_be', 'from_le_slice', 'from_be_slice', 'from_le_bytes', 'from_be_bytes'):
        return
    bits = int(t[1])
    b = bytes.fromhex(t[2]) if t[2] != '-' else b''
    nb = nbytes(bits)
    le = '_le' in op
    v = int.from_bytes(b, 'little' if le else 'big')
    if len(b) > nb:
        k = 'too-long'
    else:
        path = 'fast-path' if nb % 8 == 0 and len(b) == nb else 'byte-loop'
        masked = 'masked-top' if bits % 64 else 'whole-limbs'
        k = '%s/%s/%s' % (path, masked, 'accept' if v < (1 << bits) else 'REJECT-excess-bits')
    CLASSES[k] = CLASSES.get(k, 0) + 1


def gen(rng, tier):
    CLASSES.clear()
    for c in _gen(rng, tier):
        classify(c)
        yield c


def extra_checks(tier, rng, findings):
    cov = {'decoder_path_classes': dict(sorted(CLASSES.items()))}
    viol = []
    if tier == 'thorough' or __import__('os').environ.get('VERIF_RELEASE_RERUN') == '1':
        # the documented panics of the encoders (`BYTES` const parameter, buffer sizes) must not depend on debug assertions
        import vlib
        v, c = vlib.release_rerun(sys.modules[__name__], 'C08', rng)
        viol += v
        cov.update(c)
    return {'violations': viol, 'known': {}, 'coverage': cov}
