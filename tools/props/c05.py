"""C05 — shifts and rotations: case generator.

Case line: `op bits value amount` (hex). Methods take a `usize` amount; operator ops are
`shl_<ty>_<form>` / `shr_<ty>_<form>` (amount = non-negative value of the integer type) and
`shlU_<form>` / `shrU_<form>` (amount = a `Uint<bits>` value of any magnitude)."""
from vgen import *

BIN = 'c05'
DRV = 'drv_c05'
METHODS = ['oshl', 'oshr', 'cshl', 'cshr', 'sshl', 'wshl', 'wshr', 'ashr', 'rotl', 'rotr']
FLAGGED = ['oshl', 'oshr', 'cshl', 'cshr', 'sshl']
TYPES = {'usize': 2**64 - 1, 'u8': 2**8 - 1, 'u16': 2**16 - 1, 'u32': 2**32 - 1, 'u64': 2**64 - 1,
         'isize': 2**63 - 1, 'i8': 2**7 - 1, 'i16': 2**15 - 1, 'i32': 2**31 - 1, 'i64': 2**63 - 1}
FORMS = ['v', 'r', 'a', 'ar']
INT_OPS = ['%s_%s_%s' % (d, t, f) for d in ('shl', 'shr') for t in TYPES for f in FORMS]
UINT_OPS = ['%s_%s' % (d, f) for d in ('shlU', 'shrU') for f in FORMS]
RULE = ('corpus, then exhaustive value x amount (0..bits+64*LIMBS+1) at widths 0..5 (0..7 thorough) for the 10 methods and a '
        'rotating operator overload, then structured cases over 37 widths: amounts 0,1,63,64,65,64j+-1,BITS-1,BITS,BITS+1,64*LIMBS,'
        '64*LIMBS+1,random,huge; values from the shared classes plus values whose set bits leave through whole-limb moves or the '
        'top-limb mask and values landing on the flag boundary (x*2^s = 2^bits, 2^bits-1.., x = 2^s, 2^s+-1, 2^(s-1)); every integer '
        'operator overload (10 types x 4 forms x 2 directions) and Uint-typed amounts (<64, >=BITS, >=2^64 with small low limb); '
        'at widths 64 and 128 the harness additionally compares the Uint result with the u64/u128 primitive operation (second oracle, outcome `native-oracle-mismatch`); '
        'non-trivial = width>0, value non-zero and amount non-zero; distinct by case hash')
TRUSTED = []
ASSUMPTIONS = ['little-endian 64-bit host (usize = u64), as the crate gates Shl<u64>/Shl<i64> on target_pointer_width = 64']


def nontrivial(c, i):
    t = c.split(' ')
    return t[1] != '0' and t[2] != '0' and t[3] != '0'


def amounts(rng, bits):
    """structured shift amounts for a width"""
    n = nlimbs(bits)
    out = [0, 1, 63, 64, 65, max(bits - 1, 0), bits, bits + 1, 64 * n, 64 * n + 1, 64 * n - 1 if n else 0]
    if n:
        j = rng.randrange(n + 1)
        out += [64 * j, 64 * j + 1, max(64 * j - 1, 0)]
    out += [rng.randrange(bits + 1), rng.randrange(bits + 64 * n + 2), rng.randrange(64)]
    return out


def amount(rng, bits, limit):
    c = rng.randrange(12)
    if c == 0:
        a = rng.choice([2**8 - 1, 2**8, 2**16 - 1, 2**16, 2**31, 2**32 - 1, 2**32, 2**63 - 1, 2**63, 2**64 - 1,
                        2**64 - 64, rng.getrandbits(64), rng.getrandbits(32), 127, 128, 255, 256])
    elif c == 1:
        # whole turns plus a remainder (rotations reduce mod BITS; the limb split is amount / 64), any magnitude
        q = rng.choice([1, 2, 3, 2**8, 2**16, 2**32 // max(bits, 1), 2**32 // max(bits, 1) + 1, rng.getrandbits(40), rng.getrandbits(56)])
        a = min(q * max(bits, 1) + rng.choice([0, 1, max(bits - 1, 0), rng.randrange(max(bits, 1))]), 2**64 - 1)
    elif c == 2:
        a = rng.choice([2**32, 2**32 + 1, 2**33, 2**40, 2**48 + 63, 2**63 + 64]) + rng.randrange(max(bits, 1))
    else:
        a = rng.choice(amounts(rng, bits))
    if a > limit:
        a = rng.choice([x for x in amounts(rng, bits) if x <= limit] or [0])
    return a


def shl_value(rng, bits, s):
    """values on the overflow boundary of `x << s`"""
    if bits == 0:
        return 0
    m = 1 << bits
    c = rng.randrange(9)
    k = max(bits - s, 0)            # bits that survive
    if c == 0:                      # exactly the lowest lost bit
        return (1 << k) % m if k < bits else 0
    if c == 1:                      # largest value that does not overflow
        return ((1 << k) - 1) % m
    if c == 2:                      # only the top bit
        return 1 << (bits - 1)
    if c == 3:                      # set bits only in limbs that are dropped whole
        n = nlimbs(bits)
        l = min(s // 64, n)
        if l == 0:
            return rand_bits(rng, bits) | (1 << (bits - 1))
        lo = 64 * (n - l)
        return (rand_bits(rng, bits) >> lo << lo) % m or (1 << (bits - 1))
    if c == 4:                      # one bit in a dropped limb, nothing else
        n = nlimbs(bits)
        l = min(s // 64, n)
        lo = 64 * (n - l)
        if lo >= bits:
            return 1 << (bits - 1)
        return 1 << rng.randrange(lo, bits)
    if c == 5:                      # bit that leaves through the mask only (stays inside the top limb)
        n = nlimbs(bits)
        # choose x = 2^j with bits <= j + s < 64*n
        lo = max(bits - s, 0)
        hi = 64 * n - s
        if hi > lo and lo < bits:
            return 1 << rng.randrange(lo, min(hi, bits))
        return (1 << k) % m if k < bits else 1
    if c == 6:                      # random below the boundary
        return rand_bits(rng, k)
    if c == 7:                      # boundary + noise below
        return ((1 << k) | rand_bits(rng, k)) % m if k < bits else rand_bits(rng, bits)
    return value(rng, bits)


def shr_value(rng, bits, s):
    """values on the exactness boundary of `x >> s`"""
    if bits == 0:
        return 0
    m = 1 << bits
    c = rng.randrange(9)
    if c == 0:
        return (1 << s) % m if s < bits else 1 << (bits - 1)
    if c == 1:                      # highest lost bit only
        return 1 << min(max(s - 1, 0), bits - 1)
    if c == 2:                      # lowest bit only
        return 1
    if c == 3:                      # exact multiple
        return (rand_bits(rng, bits) >> s << s) % m if s < bits else 0
    if c == 4:                      # one bit in a limb that is dropped whole
        l = min(s // 64, nlimbs(bits))
        if l == 0:
            return 1
        return 1 << rng.randrange(0, min(64 * l, bits))
    if c == 5:                      # multiple of 2^(64*limbs) but not of 2^s
        l = s // 64
        if 64 * l < bits and s % 64:
            return (1 << (64 * l + rng.randrange(s % 64))) % m or 1
        return value(rng, bits)
    if c == 6:
        return ((1 << s) - 1) % m if s < bits else m - 1
    if c == 7:
        return ((1 << s) + 1) % m if s < bits else m - 1
    return value(rng, bits)


def uint_amount(rng, bits):
    """a Uint<bits>-typed shift amount"""
    if bits == 0:
        return 0
    m = 1 << bits
    c = rng.randrange(10)
    if c <= 3:
        return rng.choice(amounts(rng, bits)) % m
    if c == 4:
        return value(rng, bits)
    if c == 5:                      # >= 2^64 with a small low limb (only the low limb was read)
        if bits > 64:
            hi = (rand_bits(rng, bits - 64) or 1) << 64
            return (hi | rng.choice(amounts(rng, bits) + [0, 1, 2])) % m or (1 << 64) % m
        return m - 1
    if c == 6:
        return (1 << 64) % m if bits > 64 else m - 1
    if c == 7:
        return m - 1
    if c == 8:                      # single high bit
        return 1 << rng.randrange(bits)
    return rand_bits(rng, min(bits, 12))


def gen(rng, tier):
    n = 60000 if tier == 'quick' else 5000000
    exh = 5 if tier == 'quick' else 7
    rot = 0
    for bits in range(0, exh + 1):
        top = bits + 64 * nlimbs(bits) + 2
        for a in range(1 << bits):
            for s in range(top):
                for op in METHODS:
                    yield '%s %d %s %s' % (op, bits, hx(a), hx(s))
                # one operator overload per (a, s), rotating through all of them
                yield '%s %d %s %s' % (INT_OPS[rot % len(INT_OPS)], bits, hx(a), hx(s))
                rot += 1
            for t in range(1 << bits):
                yield '%s %d %s %s' % (UINT_OPS[rot % len(UINT_OPS)], bits, hx(a), hx(t))
                rot += 1
    k = 0
    while k < n:
        bits = rng.choice(GRID_ALL)
        r = rng.random()
        if r < 0.55:
            op = rng.choice(METHODS if rng.random() < 0.5 else FLAGGED)
            s = amount(rng, bits, 2**64 - 1)
            if op in ('oshl', 'cshl', 'sshl', 'wshl'):
                a = shl_value(rng, bits, s)
            elif op in ('oshr', 'cshr', 'wshr'):
                a = shr_value(rng, bits, s)
            else:
                a = value(rng, bits)
            yield '%s %d %s %s' % (op, bits, hx(a), hx(s))
        elif r < 0.8:
            op = rng.choice(INT_OPS)
            ty = op.split('_')[1]
            s = amount(rng, bits, TYPES[ty])
            a = shl_value(rng, bits, s) if op.startswith('shl') else shr_value(rng, bits, s)
            yield '%s %d %s %s' % (op, bits, hx(a), hx(s))
        else:
            op = rng.choice(UINT_OPS)
            t = uint_amount(rng, bits)
            a = value(rng, bits) if rng.random() < 0.5 else (
                shl_value(rng, bits, min(t, 2**64)) if op.startswith('shl') else shr_value(rng, bits, min(t, 2**64)))
            yield '%s %d %s %s' % (op, bits, hx(a), hx(t))
        k += 1


def finding_tag(case, impl, model, spec):
    t = case.split(' ')
    op = t[0]
    if op in ('oshl', 'cshl', 'sshl'):
        return 'shl-flag-misses-lost-bits'
    if op in ('oshr', 'cshr'):
        return 'shr-flag-misses-lost-bits'
    if op.startswith('shlU_') or op.startswith('shrU_'):
        return 'uint-amount-reads-low-limb-only'
    return None


def extra_checks(tier, rng, findings):
    """thorough tier: re-run the corpus and a quick-size sample against the harness built with the
    release profile (debug assertions and overflow checks off: `<<`/`>>` amounts wrap instead of panicking,
    `debug_assert!`s vanish), compare with model and spec again."""
    if tier != 'thorough' and __import__('os').environ.get('VERIF_RELEASE_RERUN') != '1':
        return {}
    import os
    import random
    import vlib
    binpath, secs = vlib.build_harness(BIN, release=True)
    drv = os.path.join(vlib.LEAN, '.lake', 'build', 'bin', DRV)
    cases = []
    cpath = os.path.join(vlib.ROOT, 'corpus', 'C05.cases')
    if os.path.exists(cpath):
        cases += [l.strip() for l in open(cpath) if l.strip() and not l.startswith('#')]
    cases += list(gen(random.Random(rng.getrandbits(32)), 'quick'))
    impl, _ = vlib.run_impl(binpath, cases)
    ms = vlib.run_model(drv, cases, impl)
    viol = []
    for c, i, (m, s) in zip(cases, impl, ms):
        k = vlib.classify(c, i, m, s)
        if k:
            viol.append(('impl-violation' if k == 'model-error' else k, c + '   [release profile]', i, m, s))
    return {'violations': viol,
            'coverage': {'release_profile': {'cases': len(cases), 'mismatches': len(viol), 'build_s': round(secs, 1),
                                             'profile': 'release: opt-level=2, debug-assertions=off, overflow-checks=off'}}}
