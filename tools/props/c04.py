"""C04 — canonical values; ==/Hash/Ord follow the number; ill-formed (BITS, LIMBS) types are empty.

Line-protocol cases: random HISTORIES of safe operations over 6 registers (raw limbs after every step, all registers and
all pair relations at the end), direct comparison cases, constructors, generator draws.
extra_checks: COMPILE PROBES of every constant/constructor at ill-formed (BITS, LIMBS) pairs (tools/props/c04_probes.py).
translate: the guard graph (which producers reach the `Self::LIMBS` assertion) -> lean/Ruint/Gen/GuardGraph.lean."""
import os
import re

from vgen import *
from props import c04_probes as probes

BIN = 'c04'
DRV = 'drv_c04'
WIDTHS = [0, 1, 2, 3, 7, 8, 12, 31, 33, 60, 63, 64, 65, 100, 127, 128, 129, 200, 250, 255, 256, 257, 521]
NREG = 6
GENS = ['rand08', 'rand09', 'rand09d', 'rand09m', 'random', 'arb', 'prop', 'qc']
RULE = ('corpus; random histories of 5-40 safe operations (add/sub/neg/mul/div/shifts/rotates/bit ops/pow/mod ops/conversions from '
        'primitives and limb slices/byte decoders and round trips/scripted-RNG fills/constants) over 6 registers at 23 widths '
        '(all non-aligned classes + 0 + aligned controls), seeded with algebraic routes that reach equal numbers differently, '
        'raw limbs compared after every step and ==/hash/cmp/</<=/>/>= on all 15 register pairs at the end; direct cmp cases '
        '(differences confined to one limb, top-vs-low conflicts); constructors at the mask boundary; 8 generator kinds x width x 1000+ draws; '
        'compile probes (extra_checks); non-trivial = width>0; distinct by case hash')
TRUSTED = ['rustc const-evaluation of associated consts mentioned in monomorphised bodies (observed directly by the compile probes)',
           'DefaultHasher collisions between unequal limb arrays are ignored (2^-64)']
ASSUMPTIONS = ['all 47 history operations run their own models (limb-level for add/sub/mul/div/rem/shifts/bit ops/add_mod/mul_mod/npow2, '
               'value-level L2 for gcd and pow, whose results are re-encoded as canonical limbs); closure over them is the theorem run_canon, '
               'each case by the producer\'s own specification theorem (C01/C02/C03/C05/C06/C07/C08/C10/C12/C13)']
TIMEOUT = 1200


def nontrivial(c, i):
    return c.split(' ')[1] != '0'


def finding_tag(case, impl, model, spec):
    return None


def mask_of(bits):
    if bits == 0:
        return 0
    return (1 << (bits % 64)) - 1 if bits % 64 else (1 << 64) - 1


def sx(v):
    return '-%x' % -v if v < 0 else '%x' % v


def ll(l):
    return ','.join('%x' % x for x in l) if l else '-'


def bs(b):
    return bytes(b).hex() if len(b) else '-'


INT_T = {'u8': (0, 255), 'u16': (0, 2**16 - 1), 'u32': (0, 2**32 - 1), 'u64': (0, 2**64 - 1), 'u128': (0, 2**128 - 1),
         'usize': (0, 2**64 - 1), 'i8': (-128, 127), 'i16': (-2**15, 2**15 - 1), 'i32': (-2**31, 2**31 - 1),
         'i64': (-2**63, 2**63 - 1), 'i128': (-2**127, 2**127 - 1), 'isize': (-2**63, 2**63 - 1), 'bool': (0, 1)}


def rand_prim(rng, bits):
    t = rng.choice(list(INT_T))
    lo, hi = INT_T[t]
    m = 1 << bits
    c = rng.randrange(8)
    if c == 0:
        v = lo
    elif c == 1:
        v = hi
    elif c == 2:
        v = -1
    elif c == 3:
        v = m + rng.choice([-1, 0, 1])
    elif c == 4:
        v = rng.choice([1, 2, 3]) * m + value(rng, bits)
    elif c == 5:
        v = -value(rng, bits)
    else:
        v = rng.randrange(lo, hi + 1)
    v = max(lo, min(hi, v))
    return t, v


def rand_limbs(rng, bits, exact=False):
    n = nlimbs(bits)
    W1 = (1 << 64) - 1
    ln = n if exact else rng.choice([0, max(n - 1, 0), n, n, n + 1, n + 2])
    l = [rng.choice([0, 1, W1, rng.getrandbits(64), 1 << 63]) for _ in range(ln)]
    mk = mask_of(bits)
    if n and ln >= n:
        l[n - 1] = rng.choice([mk, (mk + 1) & W1, W1, rng.getrandbits(64), rng.getrandbits(64) & mk, 0])
    return l


def rand_bytes(rng, bits, le):
    nb = (bits + 7) // 8
    m = 1 << bits
    c = rng.randrange(6)
    if c == 0:
        v, L = value(rng, bits), nb
    elif c == 1:
        v, L = (m - 1 if bits else 0), nb
    elif c == 2 and (1 << (8 * nb)) > m:
        v, L = rng.randrange(m, 1 << (8 * nb)), nb
    elif c == 3:
        v = value(rng, bits)
        L = (v.bit_length() + 7) // 8
    elif c == 4:
        v, L = value(rng, bits), nb + 1
    else:
        L = rng.randrange(nb + 2)
        v = rng.getrandbits(8 * L) if L else 0
    b = v.to_bytes(L, 'little')
    return b if le else b[::-1]


def amount(rng, bits):
    return rng.choice([0, 1, 63, 64, 65, max(bits - 1, 0), bits, bits + 1, 64 * nlimbs(bits), rng.randrange(bits + 70)])


def routes(rng, bits):
    """op snippets that make several registers hold the same number reached by different routes (inputs r0, r1)"""
    n = nlimbs(bits)
    ones = ll([(1 << 64) - 1] * (n + 1))
    c = rng.randrange(8)
    if c == 0:
        return ['wadd:2:0:1', 'wadd:3:1:0', 'wneg:4:1', 'wsub:4:0:4', 'xor:5:0:1', 'and:2:0:1', 'wshl:2:2:1', 'wadd:5:5:2']
    if c == 1:
        return ['max:2', 'zero:3', 'not:3:3', 'one:4', 'wneg:4:4', 'sfls:5:' + ones, 'fill09:0:' + ones, 'fill08:1:' + ones]
    if c == 2:
        return ['wshl:2:0:1', 'wadd:3:0:0', 'one:4', 'wadd:4:4:4', 'wmul:4:0:4', 'wsub:5:0:2', 'wneg:5:5']
    if c == 3:
        return ['rtle:2:0', 'rtbe:3:0', 'rtlimbs:4:0', 'rtlet:5:0', 'rtbet:1:0', 'copy:0:4']
    if c == 4:
        return ['not:2:0', 'not:2:2', 'max:3', 'wsub:3:3:0', 'not:4:0', 'wneg:5:0', 'one:1', 'wsub:5:5:1']
    if c == 5:
        w = rng.choice([x for x in (0, 1, 31, 64, 65, 100, 256)])
        return ['via:2:0:%d' % w, 'max:3', 'via:3:3:%d' % w, 'and:3:0:3', 'wfls:4:' + ones, 'max:5']
    if c == 6:
        return ['min:2:0:1', 'maxof:3:0:1', 'wadd:4:2:3', 'wadd:5:0:1', 'absdiff:2:0:1', 'absdiff:3:1:0']
    k = amount(rng, bits)
    return ['rotl:2:0:%d' % k, 'rotr:2:2:%d' % k, 'wshr:3:0:%d' % k, 'wshl:3:3:%d' % k, 'wshl:4:0:%d' % k, 'sadd:5:0:1', 'sadd:1:1:0']


def rand_op(rng, bits):
    d, a, b, c = (rng.randrange(NREG) for _ in range(4))
    k = rng.randrange(46)
    bin_ops = ['wadd', 'wsub', 'sadd', 'ssub', 'absdiff', 'min', 'maxof', 'wmul', 'smul', 'and', 'or', 'xor', 'div', 'rem', 'gcd']
    if k < 15:
        return '%s:%d:%d:%d' % (bin_ops[k], d, a, b)
    if k < 18:
        return '%s:%d:%d:%d' % (rng.choice(['wadd', 'wsub', 'wmul']), d, a, b)
    if k == 18:
        return '%s:%d' % (rng.choice(['zero', 'one', 'max']), d)
    if k < 22:
        return '%s:%d:%d' % (rng.choice(['wneg', 'not', 'copy', 'revbits', 'npow2', 'rtlimbs']), d, a)
    if k < 25:
        return '%s:%d:%d' % (rng.choice(['rtle', 'rtbe', 'rtlet', 'rtbet']), d, a)
    if k < 30:
        return '%s:%d:%d:%d' % (rng.choice(['wshl', 'wshr', 'rotl', 'rotr', 'ashr']), d, a, amount(rng, bits))
    if k < 32:
        return '%s:%d:%d:%d:%d' % (rng.choice(['addmod', 'mulmod']), d, a, b, c)
    if k == 32 and bits <= 130:
        return 'wpow:%d:%d:%d' % (d, a, b)
    if k == 33:
        return 'setbit:%d:%d:%d:%d' % (d, a, rng.choice([0, max(bits - 1, 0), bits, rng.randrange(bits + 3)]), rng.randrange(2))
    if k < 37:
        t, v = rand_prim(rng, bits)
        return '%s:%d:%s:%s' % (rng.choice(['wfrom', 'sfrom']), d, t, sx(v))
    if k < 40:
        return '%s:%d:%s' % (rng.choice(['wfls', 'sfls']), d, ll(rand_limbs(rng, bits)))
    if k < 42:
        le = rng.random() < 0.5
        return '%s:%d:%s' % ('tryle' if le else 'trybe', d, bs(rand_bytes(rng, bits, le)))
    if k < 45:
        raw = rand_limbs(rng, bits, exact=True)
        if raw and rng.random() < 0.5:
            raw[-1] = (1 << 64) - 1
        return '%s:%d:%s' % (rng.choice(['fill08', 'fill09', 'fillmut']), d, ll(raw))
    return 'via:%d:%d:%d' % (d, a, rng.choice([0, 1, 31, 64, 65, 100, 256]))


def history(rng, bits):
    regs = [value(rng, bits) for _ in range(NREG)]
    if rng.random() < 0.3:
        regs[1] = near(rng, bits, regs[0])
    ops = []
    if rng.random() < 0.6:
        ops += routes(rng, bits)
    n = rng.randrange(5, 41)
    while len(ops) < n:
        if rng.random() < 0.08:
            ops += routes(rng, bits)
        else:
            ops.append(rand_op(rng, bits))
    return 'hist %d %s %s' % (bits, ';'.join(hx(v) for v in regs), ' '.join(ops))


def cmp_cases(rng, bits):
    m = 1 << bits
    n = nlimbs(bits)
    a = value(rng, bits)
    out = [(a, a), (0, 0), (m - 1, m - 1), (0, m - 1), (m - 1, 0)]
    if bits:
        # differ in exactly one limb / one bit
        i = rng.randrange(bits)
        out.append((a, a ^ (1 << i)))
        out.append((a ^ (1 << i), a))
        if n >= 2:
            # top limb says less, low limbs say greater (a reversed scan would get it wrong)
            lo = rng.getrandbits(64 * (n - 1))
            lo2 = rng.getrandbits(64 * (n - 1))
            t = rng.randrange(mask_of(bits) + 1)
            t2 = rng.randrange(mask_of(bits) + 1)
            hi, lw = max(t, t2), min(t, t2)
            out.append(((lw << (64 * (n - 1))) | max(lo, lo2), (hi << (64 * (n - 1))) | min(lo, lo2)))
            out.append(((hi << (64 * (n - 1))) | min(lo, lo2), (lw << (64 * (n - 1))) | max(lo, lo2)))
            # equal top, differing middle/low
            out.append(((t << (64 * (n - 1))) | lo, (t << (64 * (n - 1))) | lo2))
            k = rng.randrange(n)
            out.append((a, (a ^ (((a >> (64 * k)) & ((1 << 64) - 1)) << (64 * k))) % m))
        out.append(pair(rng, bits))
    return [(x % m, y % m) for x, y in out]


def _gen(rng, tier):
    nh = 15000 if tier == 'quick' else 800000
    draws = 2000 if tier == 'quick' else 10000
    for bits in WIDTHS:
        for kind in GENS:
            yield 'gen %d %s %d %d' % (bits, kind, rng.randrange(1 << 32), draws)
        n = nlimbs(bits)
        mk = mask_of(bits)
        W1 = (1 << 64) - 1
        for top in sorted({mk, (mk + 1) & W1, 0, W1, 1 << 63, mk >> 1}) if n else [None]:
            l = [] if top is None else [rng.getrandbits(64) for _ in range(n - 1)] + [top]
            yield 'from_limbs %d %s' % (bits, ll(l))
            yield 'arkfrom %d %s' % (bits, ll(l))
            yield 'arkfromref %d %s' % (bits, ll(l))
            for op in ('ofls', 'fls', 'cfls', 'wfls', 'sfls'):
                yield '%s %d %s' % (op, bits, ll(l))
                yield '%s %d %s' % (op, bits, ll(l + [rng.choice([0, 1])]))
        for _ in range(6 if tier == 'quick' else 200):
            for op in ('ofls', 'fls', 'cfls', 'wfls', 'sfls'):
                yield '%s %d %s' % (op, bits, ll(rand_limbs(rng, bits)))
        for _ in range(8 if tier == 'quick' else 300):
            for a, b in cmp_cases(rng, bits):
                yield 'cmp %d %x %x' % (bits, a, b)
    # exhaustive comparisons at tiny widths
    for bits in (0, 1, 2, 3):
        for a in range(1 << bits):
            for b in range(1 << bits):
                yield 'cmp %d %x %x' % (bits, a, b)
    weights = WIDTHS + [w for w in WIDTHS if w % 64 != 0] * 2
    for _ in range(nh):
        yield history(rng, rng.choice(weights))


HIST_OPS = {}


WIDEBAD = [(64, 64, 127), (64, 64, 65), (64, 64, 129), (64, 64, 64), (100, 100, 193), (100, 100, 256), (65, 63, 127),
           (1, 1, 1), (8, 8, 15), (8, 8, 64)]


def widebad_cases(rng):
    """widening_mul into a caller-chosen result type of the wrong width (same limb count as the right one, one limb more,
    one limb less): small products (a value would fit), products above the chosen width, boundary operands"""
    for b1, b2, br in WIDEBAD:
        m1, m2 = (1 << b1) - 1, (1 << b2) - 1
        for a, b in ((1 & m1, 1 & m2), (m1, m2), (m1, 1 & m2), (3 & m1, 5 & m2), (value(rng, b1), value(rng, b2)),
                     (value(rng, b1), value(rng, b2)), (1 << (b1 - 1) if b1 else 0, 2 & m2)):
            yield 'widebad %d %d %d %x %x' % (b1, b2, br, a, b)


CANON_FNS = ['inv_ring', 'inv_mod', 'pow_mod', 'reduce_mod', 'mul_redc', 'root', 'lcm', 'gcd_extended', 'div_ceil', 'div_rem', 'cnmo',
             'o_add', 'o_sub', 'o_mul', 'o_neg', 'o_pow', 'o_shl', 'o_shr', 'c_add', 'c_sub', 'c_mul', 'c_neg', 'c_pow', 'c_shl',
             'c_shr', 'c_div', 'c_rem', 's_shl', 's_pow', 'pow', 'shl_op', 'shr_op', 'shl_uint', 'shr_uint', 'from_base_le',
             'from_base_be', 'from_digits_rt', 'from_str', 'sat_f64', 'wrap_f64', 'sat_f32', 'bits_ops', 'sum_product', 'nt_ops', 'ref_ops']
CANON_OPS = {}


def canon_cases(rng, tier):
    """every other producer of the safe API at every width of the grid (non-aligned widths twice): structured operands, small
    shift / degree / exponent arguments, odd values (inv_ring, Montgomery moduli), float bit patterns around 2^bits"""
    import struct
    reps = 3 if tier == 'quick' else 60
    for bits in WIDTHS + [w for w in WIDTHS if w % 64 != 0]:
        m = 1 << bits
        for fn in CANON_FNS:
            for _ in range(reps):
                a, b, c = value(rng, bits), value(rng, bits), value(rng, bits)
                if fn in ('inv_ring', 'mul_redc') and bits:
                    a |= 1
                    c |= 1
                    if fn == 'mul_redc':
                        a, b = a % c, b % c
                if fn in ('o_shl', 'o_shr', 'c_shl', 'c_shr', 's_shl', 'shl_op', 'shr_op', 'root', 'bits_ops', 'nt_ops') and bits:
                    b = rng.choice([0, 1, bits - 1, bits, bits + 1, 63, 64, 65, rng.randrange(2 * bits + 2)]) % m
                if fn in ('o_pow', 'c_pow', 's_pow', 'pow') and bits:
                    b = rng.choice([0, 1, 2, 3, bits, rng.randrange(200)]) % m
                    a = rng.choice([a, 2, 3, m - 1, rng.randrange(1, 1000) % m])
                if fn in ('from_base_le', 'from_base_be', 'from_digits_rt', 'from_str'):
                    a = rng.choice([2, 10, 16, 36, 64, 1 << 32, (1 << 64) - 1, rng.getrandbits(64), rng.randrange(2, 100)]) % max(m, 1)
                    if fn in ('from_base_le', 'from_base_be') and a >= 2:
                        # digit strings (the limbs of b and c) mostly below the base, with zero tails
                        nl = nlimbs(bits)
                        ds = [rng.randrange(a) if rng.random() < 0.9 else rng.getrandbits(64) for _ in range(2 * nl)]
                        z = rng.randrange(2 * nl + 1)
                        ds = ds[:z] + [0] * (2 * nl - z) if rng.random() < 0.5 else ds
                        b = sum(d << (64 * i) for i, d in enumerate(ds[:nl])) % m
                        c = sum(d << (64 * i) for i, d in enumerate(ds[nl:])) % m
                if fn in ('sat_f64', 'wrap_f64'):
                    f = rng.choice([float(m), float(m) - 1.0, float(m) * 0.5, float(rng.getrandbits(53)), 0.49, 0.5, 1.5, float(m) * 2.0,
                                    float(rng.randrange(m)) if bits <= 1000 else 1e300, -1.0, float('inf'), float('nan')]) if bits <= 1000 else 1e300
                    a = struct.unpack('<Q', struct.pack('<d', f))[0] % max(m, 1) if bits >= 64 else 0
                if fn == 'sat_f32':
                    a = rng.getrandbits(32) % max(m, 1)
                CANON_OPS[fn] = CANON_OPS.get(fn, 0) + 1
                yield 'canon %d %s %x %x %x' % (bits, fn, a % max(m, 1), b % max(m, 1), c % max(m, 1))


def gen(rng, tier):
    HIST_OPS.clear()
    CANON_OPS.clear()
    for c in widebad_cases(rng):
        yield c
    for c in canon_cases(rng, tier):
        yield c
    for c in _gen(rng, tier):
        if c.startswith('hist '):
            for t in c.split(' ')[3:]:
                k = t.split(':')[0]
                HIST_OPS[k] = HIST_OPS.get(k, 0) + 1
        yield c


def shrink_candidates(c):
    toks = c.split(' ')
    if toks[0] != 'hist':
        for k in range(2, len(toks)):
            t = toks[k]
            if re.fullmatch(r'[0-9a-f]+', t) and t != '0':
                v = int(t, 16)
                for nv in (0, 1, v >> 64, v >> 1, v & (v - 1), v - 1):
                    if nv != v and nv >= 0:
                        yield ' '.join(toks[:k] + [format(nv, 'x')] + toks[k + 1:])
        return
    ops = toks[3:]
    # drop suffix halves, then single ops
    if len(ops) > 1:
        yield ' '.join(toks[:3] + ops[:len(ops) // 2])
        yield ' '.join(toks[:3] + ops[:-1])
    for k in range(len(ops)):
        if len(ops) > 1:
            yield ' '.join(toks[:3] + ops[:k] + ops[k + 1:])
    regs = toks[2].split(';')
    for k, r in enumerate(regs):
        if r != '0':
            v = int(r, 16)
            for nv in (0, 1, v >> 1):
                if nv != v:
                    yield ' '.join(toks[:2] + [';'.join(regs[:k] + [format(nv, 'x')] + regs[k + 1:])] + ops)


# ----------------------------------------------------------------------------------------------
# (G) guard graph

PRODUCERS = {
    # public constants/constructors of src/lib.rs, src/from.rs, src/bytes.rs (+ generator support) that yield a Uint
    # without taking one: name -> (file, regex locating the item's body start)
    'ZERO': ('src/lib.rs', r'pub const ZERO: Self ='),
    'ONE': ('src/lib.rs', r'pub const ONE: Self ='),
    'MIN': ('src/lib.rs', r'pub const MIN: Self ='),
    'MAX': ('src/lib.rs', r'pub const MAX: Self ='),
    'from_limbs': ('src/lib.rs', r'pub const fn from_limbs\('),
    'from_limbs_slice': ('src/lib.rs', r'pub fn from_limbs_slice\('),
    'checked_from_limbs_slice': ('src/lib.rs', r'pub fn checked_from_limbs_slice\('),
    'wrapping_from_limbs_slice': ('src/lib.rs', r'pub fn wrapping_from_limbs_slice\('),
    'overflowing_from_limbs_slice': ('src/lib.rs', r'pub fn overflowing_from_limbs_slice\('),
    'saturating_from_limbs_slice': ('src/lib.rs', r'pub fn saturating_from_limbs_slice\('),
    'default': ('src/lib.rs', r'fn default\(\) -> Self'),
    'try_from_u64': ('src/from.rs', r'fn try_from\(value: u64\)'),
    'try_from_u128': ('src/from.rs', r'fn try_from\(value: u128\)'),
    'uint_try_from_uint': ('src/from.rs', r'fn uint_try_from\(value: Uint<BITS_SRC, LIMBS_SRC>\)'),
    'uint_try_to_uint': ('src/from.rs', r'fn uint_try_to\(\s*&self,\s*\) -> Result<Uint<BITS_DST, LIMBS_DST>'),
    'const_from_u64': ('src/from.rs', r'const fn const_from_u64\('),
    'try_from_be_slice': ('src/bytes.rs', r'pub const fn try_from_be_slice\('),
    'try_from_le_slice': ('src/bytes.rs', r'pub const fn try_from_le_slice\('),
    'from_be_slice': ('src/bytes.rs', r'pub const fn from_be_slice\('),
    'from_le_slice': ('src/bytes.rs', r'pub const fn from_le_slice\('),
    'from_be_bytes': ('src/bytes.rs', r'pub const fn from_be_bytes<'),
    'from_le_bytes': ('src/bytes.rs', r'pub const fn from_le_bytes<'),
    'proptest_arbitrary_with': ('src/support/proptest.rs', r'fn arbitrary_with\(\(\): Self::Parameters\)'),
    'arbitrary_arbitrary': ('src/support/arbitrary.rs', r'fn arbitrary\(u: &mut Unstructured'),
    'quickcheck_arbitrary': ('src/support/quickcheck.rs', r'fn arbitrary\(g: &mut Gen\)'),
    'rand09_random_with': ('src/support/rand_09.rs', r'pub fn random_with<'),
    'rand08_random_with_impl': ('src/support/rand.rs', r'fn random_with_impl<'),
    # helpers that are not public producers but are nodes of the graph
    'from_limbs_unmasked': ('src/lib.rs', r'const fn from_limbs_unmasked\('),
    'masked': ('src/lib.rs', r'const fn masked\('),
}
HELPERS = {'from_limbs_unmasked', 'masked', 'const_from_u64', 'rand08_random_with_impl'}
# references: token in a body -> node it denotes
REFS = [
    (r'Self::ZERO\b|Uint::ZERO\b', 'ZERO'), (r'Self::ONE\b', 'ONE'), (r'Self::MIN\b', 'MIN'), (r'Self::MAX\b|Uint::MAX\b', 'MAX'),
    (r'(?:Self|Uint)::from_limbs\(', 'from_limbs'), (r'Self::from_limbs\b(?!_)', 'from_limbs'),
    (r'Self::from_limbs_unmasked\b', 'from_limbs_unmasked'), (r'\.masked\(\)', 'masked'),
    (r'(?:Self|Uint)::overflowing_from_limbs_slice\(', 'overflowing_from_limbs_slice'),
    (r'Self::from_limbs_slice\(', 'from_limbs_slice'), (r'Self::checked_from_limbs_slice\(', 'checked_from_limbs_slice'),
    (r'Self::const_from_u64\(', 'const_from_u64'),
    (r'Self::try_from\(value as u64\)', 'try_from_u64'),
    (r'Self::try_from_be_slice\(', 'try_from_be_slice'), (r'Self::try_from_le_slice\(', 'try_from_le_slice'),
    (r'Self::from_be_slice\(', 'from_be_slice'), (r'Self::from_le_slice\(', 'from_le_slice'),
    (r'random_with_impl\(', 'rand08_random_with_impl'),
    (r'Self::LIMBS\b', 'LIMBS_ASSERT'),
]


def body_at(src, pos):
    """text of the item starting at pos up to its closing `;` (const item) or the `}` matching its first `{` (fn)"""
    i = pos
    depth = 0      # {}
    pdepth = 0     # () and []
    n = len(src)
    seen_brace = False
    while i < n:
        ch = src[i]
        if ch in '([':
            pdepth += 1
        elif ch in ')]':
            pdepth -= 1
        elif ch == '{':
            depth += 1
            seen_brace = True
        elif ch == '}':
            depth -= 1
            if seen_brace and depth == 0:
                return src[pos:i + 1]
        elif ch == ';' and depth == 0 and pdepth == 0 and not seen_brace:
            return src[pos:i + 1]
        i += 1
    return src[pos:]


# identifiers that may follow `Self::` / `Uint::` in a producer body without denoting a producer
NON_PRODUCER_IDENTS = {'LIMBS', 'MASK', 'BITS', 'BYTES', 'SHOULD_MASK', 'Error', 'Strategy', 'Parameters', 'arbitrary_with',
                       'try_from', 'uint_try_from', 'from_limbs', 'from_limbs_unmasked', 'overflowing_from_limbs_slice',
                       'from_limbs_slice', 'checked_from_limbs_slice', 'const_from_u64', 'try_from_be_slice',
                       'try_from_le_slice', 'from_be_slice', 'from_le_slice', 'random_with_impl', 'ZERO', 'ONE', 'MIN', 'MAX'}
KNOWN_METHODS = {'masked', 'apply_mask', 'randomize_with', 'randomize_with_impl', 'fill', 'prop_map', 'iter', 'any', 'len',
                 'copy_from_slice', 'split_at', 'split_last_mut', 'as_limbs', 'as_ptr_range', 'as_ptr', 'sub', 'add', 'cast',
                 'int_in_range', 'and_then', 'is_negative'}


def extract_graph(repo):
    """-> (edges, missing anchors, unresolved): `unresolved[name]` lists references in the body of `name` that this extractor
    cannot see through (an unknown `Self::x`/`Uint::x`, or an unknown method applied in a body that builds `Self { .. }` directly)."""
    edges = {}
    missing = []
    unresolved = {}
    for name, (f, pat) in PRODUCERS.items():
        p = os.path.join(repo, f)
        if not os.path.exists(p):
            missing.append(name)
            continue
        src = re.sub(r'//[^\n]*', '', open(p).read())
        m = re.search(pat, src)
        if not m:
            missing.append(name)
            continue
        body = body_at(src, m.start())
        body = body[len(m.group(0)):]     # the header itself is not a reference
        refs = []
        for rp, node in REFS:
            if re.search(rp, body) and node != name and node not in refs:
                refs.append(node)
        edges[name] = refs
        unk = sorted(set(x for x in re.findall(r'(?:Self|Uint)::([A-Za-z_][A-Za-z0-9_]*)', body) if x not in NON_PRODUCER_IDENTS))
        if re.search(r'\bSelf\s*\{', body):
            unk += sorted(set('.%s()' % x for x in re.findall(r'\.([a-z_][a-z0-9_]*)\(', body) if x not in KNOWN_METHODS))
        if unk:
            unresolved[name] = unk
    return edges, missing, unresolved


RAW_LITERAL = re.compile(r'\b(?:Self|Uint(?:::<[^>{}]*>)?)\s*\{\s*limbs\b')


def strip_test_modules(src):
    """drop `#[cfg(test)] mod x { .. }` blocks (brace matched)"""
    out = []
    i = 0
    for m in re.finditer(r'#\[cfg\(test\)\]\s*mod\s+\w+\s*\{', src):
        if m.start() < i:
            continue
        out.append(src[i:m.start()])
        depth = 0
        j = m.end() - 1
        while j < len(src):
            if src[j] == '{':
                depth += 1
            elif src[j] == '}':
                depth -= 1
                if depth == 0:
                    break
            j += 1
        i = j + 1
    out.append(src[i:])
    return ''.join(out)


def raw_literal_sites(repo):
    """every place in src/ that builds a `Uint` from a bare struct literal (`Self { limbs }`): the only primitive way to
    make a value besides unsafe code. -> list of (file, enclosing fn name)"""
    sites = []
    root = os.path.join(repo, 'src')
    for dp, dn, fn in os.walk(root):
        for x in sorted(fn):
            if not x.endswith('.rs'):
                continue
            path = os.path.join(dp, x)
            src = strip_test_modules(re.sub(r'//[^\n]*', '', open(path).read()))
            for m in RAW_LITERAL.finditer(src):
                owner = None
                for f in re.finditer(r'\bfn\s+([A-Za-z_][A-Za-z0-9_]*)', src[:m.start()]):
                    body = body_at(src, f.start())
                    if f.start() + len(body) > m.start():
                        owner = f.group(1)
                sites.append((os.path.relpath(path, repo), owner or '?'))
    return sites


def pod_pairs(repo):
    """the `(bits, limbs)` list of `impl_pod! { … }` in src/support/bytemuck.rs; None when the anchor is gone"""
    try:
        src = re.sub(r'//[^\n]*', '', open(os.path.join(repo, 'src', 'support', 'bytemuck.rs')).read())
    except OSError:
        return None
    m = re.search(r'\bimpl_pod!\s*\{([^}]*)\}', src)
    if not m:
        return None
    return [(int(a), int(b)) for a, b in re.findall(r'\(\s*(\d+)\s*,\s*(\d+)\s*\)', m.group(1))]


def pod_impl_sites(repo):
    n = 0
    for dp, dn, fn in os.walk(os.path.join(repo, 'src')):
        for x in fn:
            if x.endswith('.rs'):
                src = re.sub(r'//[^\n]*', '', open(os.path.join(dp, x)).read())
                n += len(re.findall(r'\bimpl\b[^{};]*\b(?:Pod|AnyBitPattern)\s+for\s+(?:Uint|Bits)\b', src))
    return n


def reach_py(edges, start):
    seen = [start]
    k = 0
    while k < len(seen):
        for r in edges.get(seen[k], []):
            if r not in seen:
                seen.append(r)
        k += 1
    return seen


def replay_probe_if_requested(repo):
    """`./check C04 --replay f` with a compile-probe replay: re-run exactly that probe and decide (the line protocol
    cannot express a compile probe, so this is handled here, before anything else runs)."""
    import json
    import sys
    if '--replay' not in sys.argv:
        return
    try:
        rp = json.load(open(sys.argv[sys.argv.index('--replay') + 1]))
    except Exception:
        return
    case = rp.get('case', '')
    if not case.startswith('probe '):
        return
    toks = case.split(' ')
    B, L, name = int(toks[1]), int(toks[2]), toks[3]
    expr = dict(probes.ITEMS).get(name)
    if expr is None:
        print('MACHINERY-ERROR property=C04: unknown probe item %r' % name, flush=True)
        sys.exit(2)
    res, err = probes.run_probes(repo, [(name, expr, B, L)], tag='replay')
    if res is None:
        print('MACHINERY-ERROR property=C04: %s' % err, flush=True)
        sys.exit(2)
    outcome, detail, src = res[(name, B, L)]
    print('probe %d %d %s -> %s %s' % (B, L, name, outcome, detail), flush=True)
    if outcome == 'value' and (B, L) in probes.ILL:
        import vlib
        tag = 'c04_bytemuck_zeroed_illformed' if name == 'bytemuck_zeroed' else 'c04_illformed_value_' + name
        f = vlib.Findings().match('C04', tag)
        if f:
            print('KNOWN-FINDING: property=C04 %s [%s]' % (f['what'], tag), flush=True)
            sys.exit(0)
    if outcome in ('value', 'timeout') and (B, L) in probes.ILL:
        print('VIOLATION property=C04 replay=%s' % sys.argv[sys.argv.index('--replay') + 1], flush=True)
        print('  kind=impl-violation case=%r impl=%r spec=%r' % (case[:200], outcome + ' ' + detail, 'compile-error|panic'), flush=True)
        sys.exit(1)
    print('C04 replay: held (%s)' % outcome, flush=True)
    sys.exit(0)


def translate(repo, lean):
    """emit Ruint/Gen/GuardGraph.lean: the mentions graph and the list of public producers"""
    replay_probe_if_requested(repo)
    import gentie
    words = gentie.gen_words(repo, lean)   # `mask` / `nlimbs` regenerated from src/lib.rs (Gen/Words.lean)
    info = _translate_guard_graph(repo, lean)
    info['words'] = words
    info['changed'] = bool(info.get('changed')) or bool(words.get('changed'))
    return info


def translate_only(repo, lean):
    """for other properties' runs: regenerate the files without the replay hook"""
    return _translate_guard_graph(repo, lean)


def _translate_guard_graph(repo, lean):
    edges, missing, unresolved = extract_graph(repo)
    # a producer that does not reach the assertion but whose body (or a body it reaches) contains a reference the extractor
    # cannot resolve (e.g. a renamed helper) is reported as "tie unavailable" and left to the compile probes — never an alarm
    unavailable = {}
    for n in sorted(edges):
        if n in HELPERS:
            continue
        r = reach_py(edges, n)
        if 'LIMBS_ASSERT' not in r:
            blockers = {x: unresolved[x] for x in r if x in unresolved}
            if blockers:
                unavailable[n] = blockers
    path = os.path.join(lean, 'Ruint', 'Gen', 'GuardGraph.lean')
    os.makedirs(os.path.dirname(path), exist_ok=True)
    nodes = sorted(set(edges) | {'LIMBS_ASSERT'} | {r for v in edges.values() for r in v})
    idx = {n: i for i, n in enumerate(nodes)}
    public = [n for n in sorted(edges) if n not in HELPERS and n not in unavailable]
    # raw construction sites: each must sit in a node that reaches the assertion
    sites = raw_literal_sites(repo)
    file_of = {n: PRODUCERS[n][0] for n in PRODUCERS}
    raw_known, raw_unknown = [], []
    for f, owner in sites:
        if owner in edges and file_of.get(owner) == f:
            raw_known.append(owner)
        else:
            raw_unknown.append('%s: fn %s' % (f, owner))
    lines = ['/-! GENERATED by tools/props/c04.py (translate) from src/lib.rs, src/from.rs, src/bytes.rs, src/support/*.rs — do not edit.',
             '    Nodes are the constants/constructors that yield a `Uint` without taking one; an edge `a → b` means the body of `a`',
             '    mentions `b`. `LIMBS_ASSERT` is the associated const `Self::LIMBS`, whose evaluation asserts `LIMBS == nlimbs(BITS)`. -/',
             'namespace Ruint.Gen.GuardGraph', '',
             'def nodeNames : List String := [%s]' % ', '.join('"%s"' % n for n in nodes), '',
             '/-- index of the `Self::LIMBS` assertion node -/',
             'def limbsAssert : Nat := %d' % idx['LIMBS_ASSERT'], '',
             '/-- adjacency: `edges[i]` = nodes mentioned by the body of node `i` -/',
             'def edges : List (List Nat) := [']
    for n in nodes:
        lines.append('  [%s],  -- %d %s' % (', '.join(str(idx[r]) for r in edges.get(n, [])), idx[n], n))
    lines[-1] = lines[-1].replace('],  --', ']   --', 1)
    raw_line = 'def rawLiteralOwners : List Nat := [%s]' % ', '.join(str(idx[n]) for n in raw_known if n in idx)
    pods = pod_pairs(repo)
    lines += [']', '', '/-- nodes whose body builds a value from the bare struct literal `Self { limbs }` (every one must reach `limbsAssert`) -/',
              raw_line, '', '/-- the public producers (every one must reach `limbsAssert`) -/',
              'def publicProducers : List Nat := [%s]' % ', '.join(str(idx[n]) for n in public), '',
              '/-- places that build a value from the bare struct literal outside the functions above (must be none: the closure',
              '    argument knows nothing about them) -/',
              'def rawLiteralSitesOutside : List String := [%s]' % ', '.join('"%s"' % x for x in raw_unknown), '',
              '/-- the `(BITS, LIMBS)` pairs for which `src/support/bytemuck.rs` implements `Pod` (any bit pattern is a value):',
              '    `impl_pod! { … }` as written in the source -/',
              'def podPairs : List (Nat × Nat) := [%s]' % ', '.join('(%d, %d)' % x for x in (pods or [])), '',
              '/-- number of `impl … Pod/AnyBitPattern for Uint…` items in src/ (the one inside `impl_pod!`) -/',
              'def podImplSites : Nat := %d' % pod_impl_sites(repo), '',
              'end Ruint.Gen.GuardGraph', '']
    new = '\n'.join(lines)
    old = open(path).read() if os.path.exists(path) else None
    changed = old != new
    if changed:
        open(path, 'w').write(new)
    return {'changed': changed and old is not None,
            'obligations': ['Ruint.C04.guard_graph_reaches', 'Ruint.C04.raw_literals_guarded', 'Ruint.C04.no_raw_literal_elsewhere',
                            'Ruint.C04.pod_pairs_aligned', 'Ruint.C04.pod_impl_only_in_macro'],
            'bytemuck_pod_pairs': ['%d,%d' % x for x in pods] if pods is not None else 'unavailable (impl_pod! list not found)',
            'raw_struct_literal_sites': ['%s: fn %s' % x for x in sites],
            'raw_struct_literal_sites_outside_known_nodes (tie unavailable; full probe set is run)': raw_unknown,
            'guard_graph': {n: edges[n] for n in sorted(edges)},
            'anchors_missing (tie unavailable for these)': missing,
            'unresolved_references (tie unavailable for these, left to the compile probes)': unavailable}


# ----------------------------------------------------------------------------------------------
# compile probes

# guard-graph node -> probe items (tools/props/c04_probes.py) that exercise it
NODE_TO_ITEMS = {
    'proptest_arbitrary_with': ['proptest_any', 'proptest_bits_any'], 'arbitrary_arbitrary': ['arbitrary'],
    'quickcheck_arbitrary': ['quickcheck_arbitrary'], 'rand09_random_with': ['rand09_random_with', 'rand09_random', 'rand09_distr'],
    'rand08_random_with_impl': ['rand08_standard'], 'try_from_u64': ['try_from_u64', 'from_u64', 'try_from_u8', 'try_from_bool'],
    'try_from_u128': ['try_from_u128', 'try_from_u128_big', 'try_from_i128_neg'], 'uint_try_from_uint': ['from_uint', 'wrapping_from_uint'],
    'uint_try_to_uint': ['uint_to', 'uint_wrapping_to', 'uint_saturating_to'], 'MAX': ['MAX', 'num_bounded_max', 'saturating_from_u128'],
    'ZERO': ['ZERO', 'MIN', 'default', 'num_zero', 'sum_empty'], 'ONE': ['ONE', 'num_one', 'product_empty'],
    'try_from_be_slice': ['try_from_be_slice', 'try_from_be_slice_full'], 'try_from_le_slice': ['try_from_le_slice', 'try_from_le_slice_full'],
}


def extra_checks(tier, rng, findings):
    repo = os.environ.get('VERIF_REPO', '/repo')
    sel = probes.select(tier, rng)
    # producers the guard graph flags (no path to the `Self::LIMBS` assertion, or a path the extractor cannot follow) are
    # probed on every ill-formed pair, whatever the tier: the compiler is the ground truth for them
    flagged = []
    try:
        edges, missing, unresolved = extract_graph(repo)
        for n in sorted(edges):
            if n not in HELPERS and 'LIMBS_ASSERT' not in reach_py(edges, n):
                flagged.append(n)
        flagged += [n for n in missing if n not in HELPERS]
    except Exception as e:   # the extractor must never turn into an alarm
        flagged = []
    try:
        known_files = {n: PRODUCERS[n][0] for n in PRODUCERS}
        if any(not (o in PRODUCERS and known_files[o] == f) for f, o in raw_literal_sites(repo)):
            # a new place builds `Self { limbs }` directly: which producers it feeds is unknown -> probe everything
            sel = probes.select('thorough', rng)
    except Exception:
        pass
    items = dict(probes.ITEMS)
    have = set((n, b, l) for n, e, b, l in sel)
    for n in flagged:
        for item in NODE_TO_ITEMS.get(n, [n]):
            if item in items:
                for b, l in probes.ILL + [(65, 2)]:
                    if (item, b, l) not in have:
                        sel.append((item, items[item], b, l))
                        have.add((item, b, l))
    # bytemuck `Pod` on well-formed widths that do not fill their limbs: reading all-ones bytes must not compile (no `Pod`
    # impl) — a value here is non-canonical. Probed on two fixed pairs plus every such pair the source's `impl_pod!` lists.
    pod_pairs_src = pod_pairs(repo) or []
    pod_probe = [(160, 3), (65, 2)] + ([(1, 1), (127, 2), (255, 4), (520, 9)] if tier != 'quick' else [])
    pod_probe += [(b, l) for b, l in pod_pairs_src if b != 64 * l and l == (b + 63) // 64 and (b, l) not in pod_probe]
    POD_EXPR = 'Some(bytemuck::pod_read_unaligned::<T>(&[0xffu8; 8 * L]))'
    sel += [('bytemuck_pod_read', POD_EXPR, b, l) for b, l in pod_probe] + [('bytemuck_pod_read', POD_EXPR, 128, 2)]
    res, err = probes.run_probes(repo, sel, tag=tier)
    cov = {'compile_probes': {}}
    if res is None:
        cov['compile_probes'] = {'status': 'unavailable', 'why': err[-800:]}
        return {'violations': [], 'known': {}, 'coverage': cov}
    viol = []
    known = {}
    table = {}
    ill = set(probes.ILL)
    for (name, B, L), (outcome, detail, src) in sorted(res.items()):
        table['%s<%d,%d>' % (name, B, L)] = outcome + (': ' + detail if detail and (outcome != 'compile-error' or 'incorrect LIMBS' not in detail) else '')
        case = 'probe %d %d %s' % (B, L, name)
        if name == 'bytemuck_pod_read':
            if (B, L) == (128, 2):
                if outcome != 'value':      # control: the probe itself must work where `Pod` exists
                    cov.setdefault('probe_control_failures', []).append(case + ' -> ' + outcome + ' ' + detail)
            elif outcome == 'value':
                limbs = [int(x) for x in re.findall(r'\d+', detail)]
                top_ok = (not limbs) or B % 64 == 0 or limbs[-1] < (1 << (B % 64))
                if not top_ok:
                    viol.append(('impl-violation', case + ' :: ' + src.replace('\n', ' '), outcome + ' ' + detail,
                                 'compile-error|canonical value', 'compile-error|canonical value'))
            continue
        if (B, L) in ill:
            if outcome == 'value':
                tag = 'c04_bytemuck_zeroed_illformed' if name == 'bytemuck_zeroed' else 'c04_illformed_value_' + name
                item = (case, outcome + ' ' + detail, 'compile-error|panic', 'compile-error|panic')
                if findings.match('C04', tag):
                    known.setdefault(tag, []).append(item)
                else:
                    viol.append(('impl-violation', case + ' :: ' + src.replace('\n', ' '), outcome + ' ' + detail,
                                 'compile-error|panic', 'compile-error|panic'))
            elif outcome == 'timeout':
                viol.append(('impl-violation', case, outcome, 'compile-error|panic', 'compile-error|panic'))
        else:
            # controls on well-formed types must yield a value, otherwise the probe itself is broken
            if outcome not in ('value',):
                cov.setdefault('probe_control_failures', []).append(case + ' -> ' + outcome + ' ' + detail)
    cov['compile_errors_due_to_LIMBS_assert'] = sum(1 for v in res.values() if v[0] == 'compile-error' and 'incorrect LIMBS' in v[1])
    cov['compile_errors_other_reason'] = sorted('%s<%d,%d>: %s' % (k[0], k[1], k[2], v[1][:80]) for k, v in res.items()
                                                if v[0] == 'compile-error' and 'incorrect LIMBS' not in v[1])
    cov['guard_graph_flagged_producers (probed on every ill-formed pair)'] = flagged
    cov['history_operation_counts'] = dict(sorted(HIST_OPS.items()))
    cov['compile_probes'] = {'count': len(res), 'pairs_illformed': sorted(ill), 'outcomes': table,
                             'summary': {o: sum(1 for v in res.values() if v[0] == o) for o in ('compile-error', 'panic', 'none', 'value', 'timeout')}}
    # code that only exists under another feature selection: the rand 0.8 inherent API (`#[cfg(not(feature = "rand-09"))]` in
    # src/support/rand.rs) is compiled out of the main harness, which enables every feature at once
    alt, alt_err = alt_rand08(repo)
    if alt is None:
        cov['alt_config_rand08'] = {'status': 'unavailable', 'why': alt_err[-600:]}
    else:
        cov['alt_config_rand08'] = {'status': 'ran', 'lines': len(alt), 'noncanonical': [l for l in alt if l.startswith('NONCANON')]}
        for l in alt:
            if l.startswith('NONCANON'):
                viol.append(('impl-violation', 'probe-alt rand08 ' + l.split(' ', 1)[1] + ' :: ' + ALT_RAND08_MAIN.replace('\n', ' ')[:1500],
                             l, 'canonical value', 'canonical value'))
    # a failing control means that probe item no longer compiles on a well-formed type (API renamed/removed): its results on
    # ill-formed types say nothing; reported as unavailable, not as an alarm (a compile error is never a violation anyway)
    return {'violations': viol, 'known': known, 'coverage': cov}


ALT_RAND08_MAIN = '''use ruint::Uint;
struct Ones;
impl rand::RngCore for Ones {
    fn next_u32(&mut self) -> u32 { u32::MAX }
    fn next_u64(&mut self) -> u64 { u64::MAX }
    fn fill_bytes(&mut self, d: &mut [u8]) { for b in d { *b = 0xff; } }
    fn try_fill_bytes(&mut self, d: &mut [u8]) -> Result<(), rand::Error> { self.fill_bytes(d); Ok(()) }
}
fn canon<const B: usize, const L: usize>(v: &Uint<B, L>) -> bool {
    L == 0 || B % 64 == 0 || v.as_limbs()[L - 1] < (1u64 << (B % 64))
}
fn run<const B: usize, const L: usize>() {
    use rand::distributions::Distribution;
    use rand::Rng;
    let mut a = Uint::<B, L>::ZERO;
    a.randomize_with(&mut Ones);
    let b = Uint::<B, L>::random_with(&mut Ones);
    let c: Uint<B, L> = rand::distributions::Standard.sample(&mut Ones);
    let d: Uint<B, L> = Ones.gen();
    let mut e = Uint::<B, L>::MAX;
    e.randomize_with(&mut Ones);
    for (n, v) in [("randomize_with", a), ("random_with", b), ("Standard.sample", c), ("gen", d), ("randomize_with_from_MAX", e)] {
        println!("{} {} {} {:?}", if canon(&v) { "OK" } else { "NONCANON" }, B, n, v.as_limbs());
    }
}
fn main() {
    run::<0, 0>(); run::<1, 1>(); run::<7, 1>(); run::<63, 1>(); run::<64, 1>(); run::<65, 2>(); run::<100, 2>();
    run::<127, 2>(); run::<128, 2>(); run::<129, 3>(); run::<200, 4>(); run::<256, 4>(); run::<521, 9>();
}
'''


def alt_rand08(repo):
    """build and run a probe against ruint with ONLY the `rand` (0.8) feature: -> (output lines, '') or (None, why)"""
    import hashlib
    import shutil
    import subprocess
    root = os.environ.get('VERIF_ROOT', os.path.dirname(os.path.dirname(os.path.dirname(os.path.abspath(__file__)))))
    key = hashlib.blake2b(repo.encode(), digest_size=5).hexdigest()
    d = '/tmp/g4_alt_r08_' + key
    tgt = os.path.join(root, 'harness', 'target', 'probes_alt_r08_' + key)
    try:
        shutil.rmtree(d, ignore_errors=True)
        os.makedirs(os.path.join(d, 'src'))
        os.makedirs(os.path.join(d, '.cargo'))
        open(os.path.join(d, '.cargo', 'config.toml'), 'w').write('[net]\noffline = true\n')
        shutil.copy(os.path.join(root, 'harness', 'Cargo.lock'), os.path.join(d, 'Cargo.lock'))
        open(os.path.join(d, 'Cargo.toml'), 'w').write(
            '[package]\nname = "g4altr08"\nversion = "0.0.0"\nedition = "2021"\npublish = false\n\n[workspace]\n\n[dependencies]\n'
            'ruint = { path = "%s", default-features = false, features = ["std", "rand"] }\nrand = "0.8"\n\n'
            '[profile.dev]\nopt-level = 0\ndebug = false\nincremental = false\n' % repo)
        open(os.path.join(d, 'src', 'main.rs'), 'w').write(ALT_RAND08_MAIN)
        env = dict(os.environ, CARGO_NET_OFFLINE='true', CARGO_TARGET_DIR=tgt)
        p = subprocess.run(['cargo', 'run', '--offline', '-q'], cwd=d, env=env, capture_output=True, text=True, timeout=1800)
        if p.returncode != 0:
            return None, (p.stderr or p.stdout)[-1500:]
        return [l for l in p.stdout.split('\n') if l.strip()], ''
    except Exception as e:   # the alternative configuration is a bonus: never an alarm when it cannot be built
        return None, repr(e)
    finally:
        shutil.rmtree(d, ignore_errors=True)
