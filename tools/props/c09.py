"""C09 — radix conversion, parsing, formatting: case generator, fmt-table translator."""
import os
import re

from vgen import *

BIN = 'c09'
DRV = 'drv_c09'
TIMEOUT = 1200
WIDTHS = [0, 1, 2, 3, 4, 7, 8, 16, 63, 64, 65, 127, 128, 129, 192, 256, 512, 4096]
WIDTHS_MAIN = [0, 1, 8, 64, 65, 128, 256, 4096]
BASES = [2, 3, 7, 10, 16, 36, 37, 64, 255, 256, 10**19, 2**32, 2**63, 2**64 - 1]
RULE = ('corpus; exhaustive digit strings (widths<=3, bases 2/3/5, length<=4, one out-of-range digit value); every ASCII '
        'character as a 1- and 2-character string x radices {2,8,10,16,36,37,62,64}; then structured: 18 widths x 14 bases '
        '(+0,1,random) x values (value classes, powers of the base +-1) for the digit iterators; digit strings denoting '
        '2^bits-1, 2^bits, 2^bits+1, one digit too many, zero tails, an invalid digit (base, base+1, 2^64-1) at every class '
        'of position, also after an overflowing prefix; strings over each alphabet for radices 0..=65 with ignored characters '
        'and one invalid character at each position; FromStr prefixes incl. multi-byte text; 414 literal format specs '
        '(6 traits x #/0/+ x alignments x fills x widths) x values at powers of the chunk base +-1; a case is non-trivial when '
        'width>0 and the value / digit string / text is non-empty and not all zeros; distinct by case hash')
TRUSTED = ['core::fmt::Formatter::pad_integral and u64 formatting inside write_digits! (modelled from std, validated against u128 formatting in the harness on every case that fits)',
           'tools/props/c09.py translate(): regex extraction of (MAX, WIDTH, PREFIX) from src/fmt.rs']
ASSUMPTIONS = ['L2 layering: from_base_le uses the value-level specs of algorithms::addmul_nx1 / mul_nx1 (C15)',
               'when a digit string is wrong in two ways (overflowing valid prefix and an out-of-range digit) either error satisfies the property (DESIGN 4.2); the model states the precedence of the code exactly',
               '{:x?} / {:X?} (debug-hex) differ from primitives by design (Debug = Display) and are outside the property\'s flag list: excluded from the grid']


def tx(s):
    b = s.encode('utf-8')
    return b.hex() if b else '-'


def csv(ds):
    return ','.join(hx(d) for d in ds) if ds else '-'


def digits_le(v, b):
    out = []
    while v:
        out.append(v % b)
        v //= b
    return out


# ------------------------------------------------------------------------------------------------
# format-spec grid: read from the harness source (single source of truth for the literals)

def load_grid():
    p = os.path.join(os.path.dirname(os.path.dirname(os.path.dirname(os.path.abspath(__file__)))), 'harness', 'src', 'bin', 'c09.rs')
    src = open(p, encoding='utf-8').read()
    seg = src.split('// GRID-BEGIN')[1].split('// GRID-END')[0]
    specs = []
    for m in re.finditer(r'grid_fn!\((\w+), (\w+); ([^;]*)\);', seg):
        for s in re.findall(r'"([^"]*)"', m.group(3)):
            specs.append((m.group(2), s))
    return specs


CHUNK = {'Display': 10**19, 'Debug': 10**19, 'Binary': 2**63, 'Octal': 2**63, 'LowerHex': 2**60, 'UpperHex': 2**60}


def fmt_values(rng, bits, chunk, n):
    """values for the formatter: zero, small, max, around powers of the chunk base, inner chunks that are zero or tiny"""
    if bits == 0:
        return [0]
    m = 1 << bits
    vals = [0, 1, m - 1]
    k = 1
    pows = []
    while chunk ** k < m:
        pows.append(chunk ** k)
        k += 1
    for _ in range(n):
        c = rng.randrange(10)
        if pows and c < 5:
            p = rng.choice(pows)
            v = [p - 1, p, p + 1, p + rng.randrange(1, 1000), p * rng.randrange(1, 100), p * rng.randrange(1, chunk) + rng.randrange(chunk // 10**6 + 2),
                 p - rng.randrange(1, 1000)][rng.randrange(7)]
        elif pows and c == 5:
            # several chunks, each tiny (long runs of zero padding)
            v = sum(rng.randrange(3) * p for p in pows) + rng.randrange(3)
        else:
            v = value(rng, bits)
        vals.append(v % m)
    return vals


# ------------------------------------------------------------------------------------------------
# strings

A36 = '0123456789abcdefghijklmnopqrstuvwxyz'
A64 = 'ABCDEFGHIJKLMNOPQRSTUVWXYZabcdefghijklmnopqrstuvwxyz0123456789'
ODD = [' ', '+', '-', '.', '/', ':', '@', '[', '`', '{', '\x00', '\x7f', '=', '\r', '\n', ',', '_', 'é', '€', '😀', '٣', 'Ａ', '​']


def enc_str(rng, v, radix, min_len=0):
    """a string denoting v in `radix` (2..=64) with the documented alphabet, random case / alternative characters"""
    ds = digits_le(v, radix)[::-1]
    while len(ds) < min_len:
        ds.insert(0, 0)
    out = []
    for d in ds:
        if radix <= 36:
            c = A36[d]
            out.append(c.upper() if rng.random() < 0.4 else c)
        else:
            if d == 62:
                out.append(rng.choice('+-'))
            elif d == 63:
                out.append(rng.choice('/,_'))
            else:
                out.append(A64[d])
    return out


def sprinkle(rng, chars, radix):
    ign = '_' if radix <= 36 else '=\r\n'
    out = []
    for c in chars:
        if rng.random() < 0.15:
            out.append(rng.choice(ign))
        out.append(c)
    if rng.random() < 0.2:
        out.append(rng.choice(ign))
    return out


def str_cases(rng, bits, radix):
    """cases for one (width, radix): valid strings near the overflow boundary, ignored characters, digit >= radix,
    one invalid character at each position"""
    m = 1 << bits
    out = []
    if not (2 <= radix <= 64):
        s = ''.join(rng.choice(A36) for _ in range(rng.randrange(4)))
        out.append(s)
        out.append(rng.choice(ODD))
        return out
    vals = [0, m - 1, m, m + 1, m * radix, m * radix - 1, m // radix, value(rng, bits), value(rng, bits), rand_bits(rng, bits + rng.randrange(1, 9))]
    for v in vals:
        cs = enc_str(rng, v, radix, rng.choice([0, 0, 1, 5]))
        out.append(''.join(cs))
        out.append(''.join(sprinkle(rng, cs, radix)))
    # one more digit than the maximum has
    cs = enc_str(rng, m - 1, radix)
    out.append(''.join(enc_str(rng, 1, radix) + cs))
    out.append('')
    out.append('_' if radix <= 36 else '=')
    # a digit >= radix somewhere
    base_s = enc_str(rng, value(rng, min(bits, 40)), radix, 3)
    if radix < 36:
        for d in (radix, 35, rng.randrange(radix, 36)):
            k = rng.randrange(len(base_s) + 1)
            c = A36[d]
            out.append(''.join(base_s[:k] + [c.upper() if rng.random() < 0.5 else c] + base_s[k:]))
    if 36 < radix < 64:
        for d in (radix, 63, 62, rng.randrange(radix, 64)):
            k = rng.randrange(len(base_s) + 1)
            out.append(''.join(base_s[:k] + enc_str(rng, d, 64) + base_s[k:]))
    # one invalid character at each position
    short = enc_str(rng, value(rng, min(bits, 24)), radix, 2)
    for k in range(len(short) + 1):
        c = rng.choice(ODD)
        out.append(''.join(short[:k] + [c] + short[k:]))
    # invalid character after an overflowing prefix / two invalid characters
    big = enc_str(rng, m * radix + 5, radix)
    out.append(''.join(big + [rng.choice(ODD)]))
    out.append(''.join([rng.choice(ODD)] + big))
    out.append(rng.choice(ODD) + rng.choice(ODD))
    return out


def fromstr_cases(rng, bits):
    m = 1 << bits
    out = ['', '0', '0x', '0X', '0o', '0b', '0B', '0O', '0x_', '0_x1', '00x1', 'x1', '0xg', '0b2', '0o8', '0b102', '0o78', '0xG', '0x0x1',
           'é1', '1é', '0é', '0éx', 'éé', '😀', 'a€', '€', '1€1', '0x€', '0xé1', '12é', '1', '9', 'a', 'A', '_', '__', '0b', '0b_', ' 1', '1 ', '+1', '-1',
           '0x+1', '٣', '1٣', '0٣1']
    for pfx, radix in (('0x', 16), ('0X', 16), ('0o', 8), ('0O', 8), ('0b', 2), ('0B', 2), ('', 10)):
        for v in (0, m - 1, m, m + 1, value(rng, bits), rand_bits(rng, bits + 3)):
            cs = enc_str(rng, v, radix, rng.choice([0, 1, 3]))
            out.append(pfx + ''.join(cs))
            out.append(pfx + ''.join(sprinkle(rng, cs, radix)))
        # digit of a larger radix after the prefix
        out.append(pfx + ''.join(enc_str(rng, value(rng, min(bits, 30)), 36, 1)))
    return out


# ------------------------------------------------------------------------------------------------
# digit strings

def digit_cases(rng, bits, base):
    """digit lists (little-endian) for from_base_le / from_base_be"""
    m = 1 << bits
    out = []
    if base < 2:
        return [[], [0], [1], [base], [5, 0]]
    for v in (0, 1, m - 1, m, m + 1, m - 2 if m > 1 else 0, value(rng, bits), value(rng, bits), m * base, m * base - 1, m + rand_bits(rng, bits),
              rand_bits(rng, bits + rng.randrange(1, 70))):
        ds = digits_le(v, base)
        out.append(ds)
        out.append(ds + [0] * rng.randrange(1, 4))
    mx = digits_le(m - 1, base)
    out.append(mx + [1])                       # one digit too many
    out.append(mx + [0, 0, 0, 1])              # non-zero far in the zero tail
    out.append(mx + [0] * 3 + [base - 1])
    out.append([base - 1] * len(mx))           # all-max digits of the same length (overflows unless m is a power of base)
    out.append([base - 1] * (len(mx) + 1))
    out.append([0] * (len(mx) + 2) + [1])
    out.append([])
    # first power of the base that does not fit: base^k >= m (the `break` of from_base_le), then zero / non-zero / invalid
    k = 0
    while base ** k < m:
        k += 1
    for tail in ([], [0], [0, 0], [1], [0, 1], [base], [0, base], [0, 2**64 - 1], [base - 1]):
        out.append(digits_le(value(rng, bits), base)[:k] + [0] * max(0, k - len(digits_le(value(rng, bits), base))) + tail)
        out.append([0] * k + tail)
        out.append([base - 1] * max(0, k - 1) + [0] + tail)
    # an invalid digit: at the start, in the middle, at the end, in the zero tail, after an overflowing prefix
    for bad in (base, base + 1 if base + 1 < 2**64 else base, 2**64 - 1):
        ds = digits_le(value(rng, bits), base) or [0]
        for pos in (0, len(ds) // 2, len(ds)):
            out.append(ds[:pos] + [bad] + ds[pos:])
        out.append(mx + [0, bad])
        out.append(mx + [1, bad])                                 # le: overflow first, be: invalid digit ... (order matters)
        out.append([bad] + mx + [1])
        out.append(digits_le(m * base + 1, base) + [bad])
        out.append([bad, bad])
    return out


def exhaustive_digits():
    """all digit strings of length <= 4 over {0..base} (base itself = the invalid digit) at widths <= 3"""
    import itertools
    for bits in (0, 1, 2, 3):
        for base in (2, 3, 5):
            for n in range(0, 5):
                if base == 5 and n > 3:
                    continue
                for ds in itertools.product(range(base + 1), repeat=n):
                    s = csv(list(ds))
                    yield 'fromle %d %x %s' % (bits, base, s)
                    yield 'frombe %d %x %s' % (bits, base, s)


# ------------------------------------------------------------------------------------------------

def nontrivial(c, i):
    t = c.split(' ')
    if t[1] == '0':
        return False
    last = t[-1]
    return last not in ('-', '0') and set(last) != {'0', ','}


def gen(rng, tier):
    scale = 1 if tier == 'quick' else 60
    grid = load_grid()
    # 1. exhaustive tiny digit strings
    for c in exhaustive_digits():
        yield c
    # 2. every ASCII character alone and after a valid digit, main radices
    for radix in (2, 8, 10, 16, 36, 37, 62, 64):
        for cp in list(range(128)) + [0xe9, 0x20ac, 0x1f600, 0xff21, 0x663]:
            ch = chr(cp)
            yield 'fsr 64 %x %s' % (radix, tx(ch))
            yield 'fsr 64 %x %s' % (radix, tx('1' + ch))
            yield 'fsr 8 %x %s' % (radix, tx(ch + 'B'))
    # 2b. every Unicode scalar value (exhaustive over `char`), as the second character of "1<c>": main radices quick, all thorough
    sweep_radices = [10, 16, 36, 37, 64] + ([rng.randrange(2, 36), rng.randrange(38, 64)] if tier == 'quick' else
                                              [r for r in range(2, 65) if r not in (10, 16, 36, 37, 64)])
    for radix in sweep_radices:
        for lo in range(0, 0x110000, 0x8000):
            yield 'sweep 64 %x %x-%x' % (radix, lo, lo + 0x7fff)
    # 3. every digit value of every radix, alone (alphabet walk) for radices 0..=65
    for radix in range(0, 66):
        for d in range(64):
            for ch in (enc_str(rng, d, 64) if radix > 36 else ([A36[d], A36[d].upper()] if d < 36 else [])):
                yield 'fsr 64 %x %s' % (radix, tx(ch))
    # 4. digit iterators
    for rep in range(scale):
        for bits in WIDTHS:
            m = 1 << bits
            for base in BASES + [0, 1, rng.randrange(2, 2**64), rng.randrange(2, 1000)]:
                vals = [0, m - 1, value(rng, bits), value(rng, bits), value(rng, bits)]
                if base >= 2:
                    k = rng.randrange(1, max(2, bits.bit_length() * 8))
                    for _ in range(3):
                        p = base ** rng.randrange(0, max(1, int(bits / max(1, base.bit_length() - 1)) + 2))
                        vals += [p - 1, p, p + 1]
                for v in vals:
                    v %= m
                    yield '%s %d %x %x' % (rng.choice(['tole', 'tobe']), bits, base, v)
    # 5. from_base
    for rep in range(scale):
        for bits in WIDTHS:
            for base in BASES + [0, 1, rng.randrange(2, 2**64), rng.randrange(2, 1000)]:
                if bits > 1024 and base < 16 and rep % 4 != 0 and tier != 'quick':
                    continue
                for ds in digit_cases(rng, bits, base):
                    if len(ds) > 5000:
                        continue
                    yield 'fromle %d %x %s' % (bits, base, csv(ds))
                    yield 'frombe %d %x %s' % (bits, base, csv(ds[::-1]))
    # 6. from_str_radix, radices 0..=65 (+ a few large)
    for rep in range(scale):
        for bits in WIDTHS_MAIN + ([rng.choice(WIDTHS)] if rep else []):
            for radix in list(range(0, 66)) + [100, 2**32, 2**64 - 1]:
                if bits == 4096 and radix % 7 not in (2, 3) and radix not in (10, 16, 36, 37, 64):
                    continue
                for s in str_cases(rng, bits, radix):
                    yield 'fsr %d %x %s' % (bits, radix, tx(s))
    # 7. FromStr
    for rep in range(scale):
        for bits in WIDTHS_MAIN + [2, 63, 129]:
            for s in fromstr_cases(rng, bits):
                yield 'fs %d %s' % (bits, tx(s))
    # 7b. every pair of ASCII characters as the two-byte prefix `FromStr` sniffs, followed by "1" and by "z" (exhaustive)
    for a in range(128):
        for b in range(128):
            yield 'fs 64 %s' % tx(chr(a) + chr(b) + '1')
            if tier != 'quick' or (a * 128 + b) % 7 == 0:
                yield 'fs 8 %s' % tx(chr(a) + chr(b) + 'z')
    # 8. formatting grid
    nv = 3 if tier == 'quick' else 100
    for bits in WIDTHS_MAIN + [63, 127, 129, 192]:
        for tr, spec in grid:
            n = nv if bits in (64, 128, 256, 192) else max(1, nv // 3)
            if bits == 4096:
                n = 1 if tier == 'quick' else 6
            for v in fmt_values(rng, bits, CHUNK[tr], n):
                yield 'fmt %d %s %x' % (bits, tx(spec), v)


def shrink_candidates(c):
    t = c.split(' ')
    op = t[0]
    if op == 'sweep':
        lo, hi = [int(x, 16) for x in t[3].split('-')]
        if lo < hi:
            mid = (lo + hi) // 2
            yield ' '.join(t[:3] + ['%x-%x' % (lo, mid)])
            yield ' '.join(t[:3] + ['%x-%x' % (mid + 1, hi)])
        return
    if op in ('fsr', 'fs'):
        k = len(t) - 1
        if t[k] == '-':
            return
        s = bytes.fromhex(t[k]).decode('utf-8')
        for i in range(len(s)):
            yield ' '.join(t[:k] + [tx(s[:i] + s[i + 1:])])
    elif op in ('fromle', 'frombe'):
        if t[3] == '-':
            return
        ds = t[3].split(',')
        for i in range(len(ds)):
            yield ' '.join(t[:3] + [','.join(ds[:i] + ds[i + 1:]) or '-'])
        for i in range(len(ds)):
            if ds[i] not in ('0', '1'):
                yield ' '.join(t[:3] + [','.join(ds[:i] + ['1'] + ds[i + 1:])])
    elif op in ('tole', 'tobe', 'fmt'):
        v = int(t[3], 16)
        for nv in (0, 1, v >> 64, v >> 1, v & (v - 1), v - 1):
            if nv != v and nv >= 0:
                yield ' '.join(t[:3] + [hx(nv)])


# ------------------------------------------------------------------------------------------------
# (G) the formatter's table, regenerated from src/fmt.rs

def _eval_const(expr):
    e = expr.replace('_', '').strip()
    if not re.fullmatch(r'[0-9xa-fA-F<>+\-*() ]+', e):
        raise ValueError('unexpected const expression: ' + expr)
    return int(eval(e, {'__builtins__': {}}))


def _charcode(lit):
    body = lit[1:-1]
    esc = {'\\r': 13, '\\n': 10, '\\t': 9, "\\'": 39, '\\\\': 92, '\\0': 0}
    if body in esc:
        return esc[body]
    if len(body) != 1:
        raise ValueError('char literal %r' % lit)
    return ord(body)


def translate_str_tables(repo, lean):
    """(G) the two `match c` tables of `from_str_radix` (src/string.rs) with the two radix bounds, as data: one row per arm and
    alternative, in source order: (lo, hi, kind, a, b) — kind 0: digit `c - a + b`, 1: ignored, 2: the constant digit `a`.
    `Gen/StrTableFacts.lean` re-proves on every run that they are the tables the model's `classify` was proved against."""
    tpath = os.path.join(lean, 'Ruint', 'Gen', 'StrTable.lean')
    fpath = os.path.join(lean, 'Ruint', 'Gen', 'StrTableFacts.lean')
    try:
        src = open(os.path.join(repo, 'src', 'string.rs')).read()
        body = src[src.index('pub fn from_str_radix'):]
        body = body[:body.index('\n    }\n')]
        rmax = int(re.search(r'if radix > (\d+) \{\s*return Err\(ParseError::InvalidRadix', body).group(1))
        lmax = int(re.search(r'let digit = if radix <= (\d+) \{', body).group(1))
        blocks = re.findall(r'match c \{(.*?)\n                \}', body, re.S)
        if len(blocks) != 2:
            raise ValueError('expected two `match c` tables, found %d' % len(blocks))
        tables = []
        for blk in blocks:
            rows = []
            blk = blk + '\n'
            arms = re.findall(r"\n\s*((?:'(?:\\.|[^'\\])'(?:\.\.='(?:\\.|[^'\\])')?\s*\|?\s*)+|_)\s*=>\s*(\{.*?\n\s*\}|[^\n]*?),?(?=\n)", blk, re.S)
            seen_default = False
            for pat, rhs in arms:
                pat = pat.strip()
                rhs = rhs.strip().rstrip(',')
                if pat == '_':
                    if 'InvalidDigit' not in rhs:
                        raise ValueError('default arm is not the InvalidDigit arm')
                    seen_default = True
                    continue
                if seen_default:
                    raise ValueError('arm after the default arm')
                m0 = re.fullmatch(r"u64::from\(c\) - u64::from\(('(?:\\.|[^'\\])')\)(?: \+ (\d+))?", rhs)
                if m0:
                    kind, a, b = 0, _charcode(m0.group(1)), int(m0.group(2) or 0)
                elif re.fullmatch(r'\d+', rhs):
                    kind, a, b = 2, int(rhs), 0
                elif rhs.startswith('return None'):
                    kind, a, b = 1, 0, 0
                else:
                    raise ValueError('arm not understood: %r => %r' % (pat, rhs))
                for alt in [x.strip() for x in pat.split('|') if x.strip()]:
                    mr = re.fullmatch(r"('(?:\\.|[^'\\])')\.\.=('(?:\\.|[^'\\])')", alt)
                    if mr:
                        lo, hi = _charcode(mr.group(1)), _charcode(mr.group(2))
                    else:
                        lo = hi = _charcode(alt)
                    rows.append((lo, hi, kind, a, b))
            if not seen_default or not rows:
                raise ValueError('table without arms or default')
            tables.append(rows)

        def lst(rows):
            return '[' + ', '.join('(%d, %d, %d, %d, %d)' % r for r in rows) + ']'
        new = '\n'.join([
            '/-! GENERATED by tools/props/c09.py (`translate_str_tables`) from `src/string.rs` — do not edit.',
            '    The two `match c` tables of `from_str_radix`, one row per arm and alternative in source order:',
            '    (lo, hi, kind, a, b) — kind 0: digit `c - a + b` for `lo ≤ c ≤ hi`; 1: ignored character; 2: the constant digit `a`.',
            '    Characters matching no row take the `InvalidDigit` arm. `lowMax`: `radix <= lowMax` selects the first table;',
            '    `radixMax`: larger radices are `InvalidRadix`. -/',
            'namespace Ruint.Gen.StrTable', '',
            'def low : List (Nat × Nat × Nat × Nat × Nat) := ' + lst(tables[0]),
            'def high : List (Nat × Nat × Nat × Nat × Nat) := ' + lst(tables[1]),
            'def lowMax : Nat := %d' % lmax,
            'def radixMax : Nat := %d' % rmax, '',
            'end Ruint.Gen.StrTable', ''])
        newf = '\n'.join([
            'import Ruint.Gen.StrTable',
            '/-! GENERATED by tools/props/c09.py — do not edit. Re-proved on every run: the tables extracted from the current',
            '    `src/string.rs` are the ones `Props/C09.gen_classify_eq` relates to the model\'s `classify`. -/',
            'namespace Ruint.Gen.StrTable', '',
            'theorem tables_expected :',
            '    low = [(48, 57, 0, 48, 0), (97, 122, 0, 97, 10), (65, 90, 0, 65, 10), (95, 95, 1, 0, 0)]',
            '    ∧ high = [(65, 90, 0, 65, 0), (97, 122, 0, 97, 26), (48, 57, 0, 48, 52), (43, 43, 2, 62, 0), (45, 45, 2, 62, 0),',
            '        (47, 47, 2, 63, 0), (44, 44, 2, 63, 0), (95, 95, 2, 63, 0), (61, 61, 1, 0, 0), (13, 13, 1, 0, 0), (10, 10, 1, 0, 0)]',
            '    ∧ lowMax = 36 ∧ radixMax = 64 := by decide', '',
            'end Ruint.Gen.StrTable', ''])
        changed = False
        for pth, txt in ((tpath, new), (fpath, newf)):
            old = open(pth).read() if os.path.exists(pth) else ''
            if old != txt:
                open(pth, 'w').write(txt)
                changed = True
        return {'changed': changed, 'obligations': ['Ruint.Gen.StrTable.tables_expected'],
                'tables': {'low': tables[0], 'high': tables[1], 'lowMax': lmax, 'radixMax': rmax}}
    except Exception as e:  # anchor vanished: the tie is unavailable
        return {'changed': False, 'unavailable': 'string.rs table anchors not found: %r' % (e,), 'obligations': []}


def translate(repo, lean):
    r = _translate_fmt(repo, lean)
    st = translate_str_tables(repo, lean)
    r['changed'] = bool(r.get('changed')) or bool(st.get('changed'))
    r['obligations'] = list(r.get('obligations', [])) + list(st.get('obligations', []))
    r['str_tables'] = st
    return r


def _translate_fmt(repo, lean):
    path = os.path.join(lean, 'Ruint', 'Gen', 'FmtTable.lean')
    old = open(path).read() if os.path.exists(path) else ''
    try:
        src = open(os.path.join(repo, 'src', 'fmt.rs')).read()
        rows = {}
        for m in re.finditer(r'impl Base for (\w+) \{(.*?)\n    \}', src, re.S):
            body = m.group(2)
            mx = re.search(r'const MAX: u64 = ([^;]+);', body).group(1)
            wd = re.search(r'const WIDTH: usize = ([^;]+);', body).group(1)
            pf = re.search(r'const PREFIX: &\'static str = "([^"]*)";', body).group(1)
            rows[m.group(1)] = (mx.strip(), _eval_const(mx), _eval_const(wd), pf)
        # which trait uses which row, and with which format character
        uses = {}
        for m in re.finditer(r'impl<[^>]*> fmt::(\w+) for Uint<BITS, LIMBS> \{\s*fn fmt[^{]*\{\s*write_digits!\(self, f; base::(\w+), "(\w?)"\);', src):
            uses[m.group(1)] = (m.group(2), m.group(3))
        charbase = {'b': 2, 'o': 8, '': 10, 'x': 16, 'X': 16}
        expect = {'Binary': 'Binary', 'Octal': 'Octal', 'Display': 'Decimal', 'LowerHex': 'Hexadecimal', 'UpperHex': 'Hexadecimal'}
        for tr, row in expect.items():
            if uses.get(tr, (None,))[0] != row:
                raise ValueError('trait %s no longer uses base::%s (%r)' % (tr, row, uses.get(tr)))
        names = [('binary', 'Binary', 'Binary'), ('octal', 'Octal', 'Octal'), ('decimal', 'Decimal', 'Display'), ('hexadecimal', 'Hexadecimal', 'LowerHex')]
        out = ['/-! GENERATED by tools/props/c09.py (`translate`) from `src/fmt.rs` — do not edit.',
               '    One row per `impl Base for …`: the numeric base of the trait that uses it, `MAX`, `WIDTH`, `PREFIX`.',
               '    (The facts about the rows are re-proved in `FmtTableFacts.lean`, so that the model still builds — and',
               '    mirrors the code — when a row is wrong.) -/',
               'namespace Ruint.Gen.FmtTable', '',
               'structure Row where', '  base : Nat', '  max : Nat', '  width : Nat', '  pfx : String', '']
        for lname, row, tr in names:
            mxs, mxv, wv, pf = rows[row]
            ch = uses[tr][1]
            out.append('/-- `%s`: MAX = `%s`, format char `%s` -/' % (row, mxs, ch))
            out.append('def %s : Row := ⟨%d, %d, %d, "%s"⟩' % (lname, charbase[ch], mxv, wv, pf))
        out += ['',
                '/-- what the chunked formatter needs of a row: `MAX = base^WIDTH`, and `MAX` is a `u64` above 1. -/',
                'def Row.Ok (r : Row) : Prop := r.max = r.base ^ r.width ∧ 1 < r.max ∧ r.max < 2 ^ 64 ∧ 0 < r.width', '',
                'instance (r : Row) : Decidable r.Ok := by unfold Row.Ok; infer_instance', '',
                'end Ruint.Gen.FmtTable', '']
        facts = ['import Ruint.Gen.FmtTable',
                 '/-! GENERATED by tools/props/c09.py (`translate`) — do not edit. Re-proved on every run against the rows',
                 '    extracted from the current `src/fmt.rs`. -/',
                 'namespace Ruint.Gen.FmtTable', '']
        for lname, _, _ in names:
            facts.append('theorem %s_ok : %s.Ok := by decide' % (lname, lname))
        facts += ['', 'end Ruint.Gen.FmtTable', '']
        new = '\n'.join(out)
        newf = '\n'.join(facts)
        fpath = os.path.join(lean, 'Ruint', 'Gen', 'FmtTableFacts.lean')
        oldf = open(fpath).read() if os.path.exists(fpath) else ''
        changed = new != old or newf != oldf
        if new != old:
            open(path, 'w').write(new)
        if newf != oldf:
            open(fpath, 'w').write(newf)
        return {'changed': changed, 'file': 'Ruint/Gen/FmtTable.lean + Ruint/Gen/FmtTableFacts.lean',
                'obligations': ['Ruint.Gen.FmtTable.%s_ok' % n[0] for n in names],
                'rows': {k: {'MAX': v[1], 'WIDTH': v[2], 'PREFIX': v[3], 'source': v[0]} for k, v in rows.items()},
                'uses': {k: list(v) for k, v in uses.items()}}
    except Exception as e:  # anchor vanished: this tie is unavailable, the hand-model tie is still checked
        return {'changed': False, 'unavailable': 'fmt.rs table anchor not found: %r' % (e,), 'obligations': []}
