"""C10 — modular arithmetic (reduce_mod, add_mod, mul_mod, pow_mod, inv_mod): case generator."""
from math import gcd

from vgen import *

BIN = 'c10'
DRV = 'drv_c10'
RULE = ('corpus, then exhaustive (a, b, m) / (a, e, m) / (a, m) at widths 0..4 (0..5 thorough) for all six ops, then structured '
        'cases over 37 widths: moduli from {0, 1, 2, 3, 2^k, 2^k+-1, 2^bits-1, 2^bits-c, random of every limb length with '
        'un-normalised (top limb 1, small) and normalised tops, value classes}, operands not reduced (value classes, m-1, m, m+1, '
        '2m-1, MAX), add_mod pairs whose reduced sum carries out of BITS or lands on m / m-1 / 2^bits, mul_mod products needing all '
        '2*LIMBS limbs, pow_mod exponents {0, 1, 2, 2^k, 2^k-1, random log-uniform length}, inv_mod pairs coprime / common factor / '
        'Fibonacci neighbours (longest quotient chains) / one huge quotient / a = 0, m-1, >= m; invtr additionally feeds the real '
        'LehmerMatrix::from answers to the model and checks each against its contract. non-trivial = modulus and an operand '
        'non-zero; distinct by case hash')
TRUSTED = ['L2 model: the body operations (%, /, overflowing_add, wrapping +,-,*, addmul, algorithms::div, >>, comparisons) are the '
           'value-level specifications of the Uint operations proved/checked under C01, C02, C03, C05, C14, C15; '
           'LehmerMatrix::from is an oracle whose answers are fed to the model by the harness and checked against the contract (C12)']
ASSUMPTIONS = ['harness profile has debug-assertions on (mul_mod debug_assert!(!overflow) is modelled and proved never to fire)']
TIMEOUT = 1800


def nontrivial(c, i):
    t = c.split(' ')
    return t[-1] != '0' and any(x != '0' for x in t[2:-1])


def fib_pair(rng, bits):
    a, b = 1, 1
    lim = 1 << bits
    k = rng.randrange(2, max(3, int(bits * 1.44)))
    for _ in range(k):
        if a + b >= lim:
            break
        a, b = b, a + b
    return a, b


def modulus(rng, bits):
    if bits == 0:
        return 0
    top = 1 << bits
    c = rng.randrange(16)
    if c == 0:
        return 0
    if c == 1:
        return 1
    if c == 2:
        return 2 % top
    if c == 3:
        return 1 << rng.randrange(bits)
    if c == 4:
        return top - 1
    if c == 5:
        return (top - rng.choice([2, 3, 5, 19, 159, 189, 2**32 + 1])) % top
    if c == 6:
        return ((1 << rng.randrange(bits)) + rng.choice([-1, 1])) % top
    if c in (7, 8, 9):
        # every limb length, un-normalised / normalised tops
        n = nlimbs(bits)
        k = rng.randrange(1, n + 1)
        hib = min(64, bits - 64 * (k - 1))
        t = rng.choice([1, 2, 3, (1 << (hib - 1)), (1 << hib) - 1, rng.getrandbits(hib) | 1, rng.getrandbits(max(1, hib // 2)) | 1])
        t %= (1 << hib)
        low = rng.choice([0, (1 << (64 * (k - 1))) - 1, rng.getrandbits(64 * (k - 1)) if k > 1 else 0,
                          limb_pattern(rng, 64 * (k - 1)) if k > 1 else 0])
        return ((t << (64 * (k - 1))) | low) % top
    if c == 10:
        return rand_bits(rng, rng.randrange(bits + 1))
    if c == 11:
        return 3 % top
    return value(rng, bits)


def operand(rng, bits, m):
    if bits == 0:
        return 0
    top = 1 << bits
    c = rng.randrange(12)
    if c == 0 and m:
        return (m - 1) % top
    if c == 1:
        return m % top
    if c == 2:
        return (m + 1) % top
    if c == 3:
        return (2 * m - 1) % top if 2 * m - 1 < top else top - 1
    if c == 4:
        return top - 1
    if c == 5 and m:
        return (rng.randrange(1, 4) * m + rng.randrange(m)) % top
    if c == 6 and m:
        return rng.randrange(m)
    if c == 7:
        return (m // 2) % top
    return value(rng, bits)


def add_cases(rng, bits):
    """(a, b, m): reduced sum carries out of BITS / lands on the boundaries"""
    top = 1 << bits
    if bits == 0:
        return [(0, 0, 0)]
    out = []
    # m in the upper half so that lhs + rhs can exceed 2^bits
    m = top - rng.choice([1, 2, 3, 1 + rand_bits(rng, rng.randrange(bits)) % max(1, top // 2)])
    m = max(m, top // 2 + 1) % top or top - 1
    for a, b in [(m - 1, m - 1), (m - 1, 1 % m), (m - 1, top - m), (top - m, m - 1), (m - 1, (top - m + 1) % m),
                 (rng.randrange(m), rng.randrange(m)), (m // 2, m - m // 2), (m // 2, m - m // 2 - 1),
                 ((top - 1) // 2 + 1, (top - 1) // 2 + 1)]:
        a %= m
        b %= m
        out.append((a, b, m))
        # same residues, unreduced representatives when they fit
        a2 = a + m if a + m < top else a
        b2 = b + m if b + m < top else b
        out.append((a2, b2, m))
    # sum exactly m, m-1, m+1 for an arbitrary modulus
    m2 = modulus(rng, bits)
    if m2 > 1:
        a = rng.randrange(m2)
        for s in (m2, m2 - 1, m2 + 1):
            out.append((a, (s - a) % m2, m2))
    return out


def inv_pair(rng, bits):
    if bits == 0:
        return 0, 0
    top = 1 << bits
    c = rng.randrange(14)
    m = modulus(rng, bits)
    if c == 0:
        b, a = fib_pair(rng, bits)
        return b, a
    if c == 1:
        a, b = fib_pair(rng, bits)
        return a, b          # a < m, coprime neighbours
    if c == 2 and m > 1:
        return rng.randrange(m), m
    if c == 3 and m > 2:
        # common factor
        g = rng.choice([2, 3, 5, 7, 1 << rng.randrange(1, max(2, bits // 2)), rand_bits(rng, max(1, bits // 3)) | 1])
        m2 = (m // g) * g
        if m2 >= g and m2 < top and g > 1:
            return (rng.randrange(1, m2 // g + 1) * g) % top, m2
        return 0, m
    if c == 4:
        return 0, m
    if c == 5 and m:
        return (m - 1) % top, m
    if c == 6:
        return value(rng, bits), m       # not reduced
    if c == 7:
        m = 1 << rng.randrange(bits)
        return rand_bits(rng, bits) | rng.randrange(2), m
    if c == 8 and bits >= 8:
        # one huge quotient: a tiny against a big modulus (Euclid fallback / identity matrix)
        return rng.randrange(1, 1 << rng.randrange(1, min(bits, 33))), (top - rng.randrange(1, 1 << min(bits - 1, 16))) | 1
    if c == 9 and m > 1:
        return 1, m
    if c == 10 and bits >= 4:
        # agree in the leading bits
        a = rand_bits(rng, bits) | (1 << (bits - 1))
        d = rand_bits(rng, rng.randrange(1, bits))
        return max(a - d, 0), a
    if c == 11 and m > 2:
        # a = x^-1 for a small x: quotient sequence ends with a big step
        x = rng.randrange(2, 1 << min(16, bits))
        if gcd(x, m) == 1:
            return pow(x, -1, m), m
    return rand_bits(rng, bits), rand_bits(rng, bits)


def exponent(rng, bits):
    if bits == 0:
        return 0
    top = 1 << bits
    c = rng.randrange(10)
    cap = bits if bits <= 256 or rng.random() < 0.15 else 64
    if c == 0:
        return 0
    if c == 1:
        return 1
    if c == 2:
        return 2 % top
    if c == 3:
        return 1 << rng.randrange(cap)
    if c == 4:
        return (1 << rng.randrange(1, cap + 1)) - 1
    if c == 5 and bits <= 256:
        return top - 1
    if c == 6:
        return rng.randrange(1, 65) % top
    return rand_bits(rng, rng.randrange(cap + 1))


def gen(rng, tier):
    n = 30000 if tier == 'quick' else 4000000
    exh = 4 if tier == 'quick' else 5
    for bits in range(0, exh + 1):
        r = range(1 << bits)
        for m in r:
            for a in r:
                yield 'reduce %d %s %s' % (bits, hx(a), hx(m))
                yield 'inv %d %s %s' % (bits, hx(a), hx(m))
                yield 'invtr %d %s %s' % (bits, hx(a), hx(m))
                for b in r:
                    yield 'add %d %s %s %s' % (bits, hx(a), hx(b), hx(m))
                    yield 'mul %d %s %s %s' % (bits, hx(a), hx(b), hx(m))
                    yield 'pow %d %s %s %s' % (bits, hx(a), hx(b), hx(m))
    k = 0
    while k < n:
        bits = rng.choice(GRID_ALL)
        r = rng.random()
        if r < 0.08:
            m = modulus(rng, bits)
            yield 'reduce %d %s %s' % (bits, hx(operand(rng, bits, m)), hx(m))
            k += 1
        elif r < 0.092:
            for a, b, m in add_cases(rng, bits):
                yield 'add %d %s %s %s' % (bits, hx(a), hx(b), hx(m))
                k += 1
        elif r < 0.17:
            m = modulus(rng, bits)
            yield 'add %d %s %s %s' % (bits, hx(operand(rng, bits, m)), hx(operand(rng, bits, m)), hx(m))
            k += 1
        elif r < 0.41:
            m = modulus(rng, bits)
            if rng.random() < 0.25 and bits:
                a = b = (1 << bits) - 1          # product needs all 2*LIMBS limbs
                if rng.random() < 0.5:
                    b = (1 << bits) - 1 - rand_bits(rng, rng.randrange(bits))
            else:
                a, b = operand(rng, bits, m), operand(rng, bits, m)
            yield 'mul %d %s %s %s' % (bits, hx(a), hx(b), hx(m))
            k += 1
        elif r < 0.55:
            if bits > 1024 and rng.random() < 0.7:
                bits = rng.choice([64, 65, 128, 255, 256, 512])
            m = modulus(rng, bits)
            yield 'pow %d %s %s %s' % (bits, hx(operand(rng, bits, m)), hx(exponent(rng, bits)), hx(m))
            k += 1
        else:
            a, m = inv_pair(rng, bits)
            yield '%s %d %s %s' % (rng.choice(['inv', 'invtr']), bits, hx(a), hx(m))
            k += 1


# ----------------------------------------------------------------------------------------------
# thorough tier: the corpus and a structured sample again under --release (debug_assert!s and overflow checks
# compiled out), judged against python big-integer arithmetic

def py_spec(case):
    t = case.split(' ')
    op, bits = t[0], int(t[1])
    v = [int(x, 16) for x in t[2:]]
    m = v[-1]
    if op == 'reduce':
        return hx(v[0] % m if m else 0)
    if op == 'add':
        return hx((v[0] + v[1]) % m if m else 0)
    if op == 'mul':
        return hx((v[0] * v[1]) % m if m else 0)
    if op == 'pow':
        return hx(pow(v[0], v[1], m) if m else 0)
    if op in ('inv', 'invtr'):
        if bits == 0 or m < 2 or gcd(v[0], m) != 1:
            return 'none'
        return 'some ' + hx(pow(v[0], -1, m))
    return None


def extra_checks(tier, rng, findings):
    if tier != 'thorough' and __import__('os').environ.get('VERIF_RELEASE_RERUN') != '1':
        return {}
    import os
    import vlib
    binpath, secs = vlib.build_harness(BIN, release=True)
    cases = []
    cpath = os.path.join(vlib.ROOT, 'corpus', 'C10.cases')
    if os.path.exists(cpath):
        cases += [l.strip() for l in open(cpath) if l.strip() and not l.startswith('#')]
    for k, c in enumerate(gen(rng, 'quick')):
        cases.append(c)
        if k > 60000:
            break
    impl, _ = vlib.run_impl(binpath, cases, timeout=1800)
    viol = []
    for c, i in zip(cases, impl):
        want = py_spec(c)
        got = i.split(' | ')[0]
        if got != want:
            viol.append(('impl-violation', c, i + ' (release profile)', 'skip', want))
    return {'violations': viol[:50],
            'coverage': {'release_profile_rerun': {'cases': len(cases), 'mismatches': len(viol), 'build_s': round(secs, 1),
                                                   'oracle': 'python big integers'}}}
