"""C20 — facade parity (operators, Bits, num-traits, num-integer, subtle, Sum/Product, zeroize vs the
inherent Uint methods): case generator. The harness prints `F|I`; the driver judges parity."""
from vgen import *

BIN = 'c20'
DRV = 'drv_c20'
WIDTHS = [0, 1, 7, 8, 12, 60, 63, 64, 65, 100, 128, 160, 250, 256, 512]
RULE = ('corpus, then EXHAUSTIVE operand pairs at widths 0 and 1 and all pairs of a 16-value subset at width 7 '
        '(48 values thorough) for every two-operand op; then per width (15 widths incl. 0, non-limb-aligned and '
        'non-byte-aligned ones) a list of operand tuples (vgen value/pair/near classes + targeted: b=0, a=b, '
        'pairs differing in exactly the lowest / a middle / the highest limb and crossed limb orders, MAX, lcm '
        'overflowing / just fitting, exact multiples and off-by-one, products overflowing by one bit, byte '
        'palindromes and non-palindromes, small pow pairs) crossed with EVERY op of that shape: 6 operator shapes '
        'x {+,-,*,/,%,&,|,^}, shifts by all 10 primitive amount types x 4 shapes x {<<,>>} over a boundary '
        'amount list (0,1,63,64,65,bits-1,bits,bits+1,2bits,2^32-1,2^32,2^63,2^64-1, values truncating to '
        'small/negative u8/i8/u16/i16/u32, random<bits), shifts by Uint (amounts >= 2^64 under *.big.*), the Bits '
        'wrapper methods/operators, all num-traits and num-integer trait methods incl. trait-provided defaults, '
        'subtle, Sum/Product lists of length 0,1,2,3,5,17, zeroize; primitive inputs around 2^bits, 2^63, 2^64, '
        '2^127, 2^128 and negatives; byte strings of every length 0..BYTES+2; radix strings '
        '(valid/invalid/overflowing/empty/underscore; radixes 2,8,10,16,36,64 and invalid ones); '
        'non-trivial = width>0 and some operand token non-zero; distinct by case hash')

SH6 = ['vv', 'vr', 'rv', 'rr', 'av', 'ar']
SH4 = ['v', 'r', 'av', 'ar']
BINOPS = ['add', 'sub', 'mul', 'div', 'rem', 'and', 'or', 'xor']
PRIMS = ['usize', 'u8', 'u16', 'u32', 'u64', 'isize', 'i8', 'i16', 'i32', 'i64']
PRIM12 = ['u8', 'u16', 'u32', 'u64', 'u128', 'usize', 'i8', 'i16', 'i32', 'i64', 'i128', 'isize']

# ---- op lists by argument shape ------------------------------------------------------------------
OPS_AB = (
    ['%s.%s' % (o, s) for o in BINOPS for s in SH6]
    + ['bits.%s.%s' % (o, s) for o in ('and', 'or', 'xor') for s in SH6]
    + ['bits.as_uint_mut', 'bits.eq']
    + ['nt.CheckedAdd.checked_add', 'nt.CheckedSub.checked_sub', 'nt.CheckedMul.checked_mul',
       'nt.CheckedDiv.checked_div', 'nt.CheckedRem.checked_rem',
       'nt.CheckedEuclid.checked_div_euclid', 'nt.CheckedEuclid.checked_rem_euclid',
       'nt.CheckedEuclid.checked_div_rem_euclid',
       'nt.Euclid.div_euclid', 'nt.Euclid.rem_euclid', 'nt.Euclid.div_rem_euclid',
       'nt.Saturating.saturating_add', 'nt.Saturating.saturating_sub',
       'nt.SaturatingAdd.saturating_add', 'nt.SaturatingSub.saturating_sub', 'nt.SaturatingMul.saturating_mul',
       'nt.WrappingAdd.wrapping_add', 'nt.WrappingSub.wrapping_sub', 'nt.WrappingMul.wrapping_mul',
       'nt.OverflowingAdd.overflowing_add', 'nt.OverflowingSub.overflowing_sub', 'nt.OverflowingMul.overflowing_mul',
       'nt.Pow.pow']
    + ['ni.' + m for m in ('div_floor', 'mod_floor', 'gcd', 'lcm', 'gcd_lcm', 'is_multiple_of', 'divides', 'div_rem',
                           'div_mod_floor', 'div_ceil', 'extended_gcd', 'next_multiple_of', 'prev_multiple_of')]
    + ['ct.eq', 'ct.ne', 'ct.gt', 'ct.lt'])

OPS_A = (
    ['neg.v', 'neg.r', 'not.v', 'not.r']
    + ['bits.' + m for m in ('reverse_bits', 'as_le_bytes', 'to_be_bytes_vec', 'to_le_bytes', 'to_be_bytes',
                             'leading_zeros', 'leading_ones', 'trailing_zeros', 'trailing_ones', 'as_limbs',
                             'as_limbs_mut', 'into_inner', 'as_uint', 'not.v', 'not.r', 'from_uint')]
    + ['nt.CheckedNeg.checked_neg', 'nt.WrappingNeg.wrapping_neg', 'nt.Inv.inv']
    + ['nt.ToPrimitive.to_' + t for t in PRIM12]
    + ['nt.Zero.is_zero', 'nt.Zero.set_zero', 'nt.One.is_one', 'nt.One.set_one',
       'nt.ToBytes.to_le_bytes', 'nt.ToBytes.to_be_bytes', 'nt.ToBytes.to_ne_bytes']
    + ['nt.PrimInt.' + m for m in ('count_ones', 'count_zeros', 'leading_zeros', 'leading_ones', 'trailing_zeros',
                                   'trailing_ones', 'swap_bytes', 'to_be', 'from_be', 'to_le', 'from_le',
                                   'reverse_bits')]
    + ['ni.is_even', 'ni.is_odd', 'ni.inc', 'ni.dec']
    + ['zeroize.uint', 'zeroize.bits'])

OPS_SHIFT_PRIM = ['%s.%s.%s' % (d, t, s) for d in ('shl', 'shr') for t in PRIMS for s in SH4]
OPS_AN = (
    ['bits.' + m for m in ('checked_shl', 'checked_shr', 'overflowing_shl', 'overflowing_shr', 'wrapping_shl',
                           'wrapping_shr', 'rotate_left', 'rotate_right', 'index')]
    + ['bits.%s.%s' % (d, s) for d in ('shl', 'shr') for s in ('vv', 'rv', 'vr', 'rr', 'av', 'ar')]
    + ['nt.CheckedShl.checked_shl', 'nt.CheckedShr.checked_shr', 'nt.WrappingShl.wrapping_shl',
       'nt.WrappingShr.wrapping_shr']
    + ['nt.PrimInt.' + m for m in ('rotate_left', 'rotate_right', 'signed_shl', 'signed_shr', 'unsigned_shl',
                                   'unsigned_shr')]
    + ['ct.bit'])
OPS_SHIFT_U = ['%s.%s' % (d, s) for d in ('shlU', 'shrU') for s in SH4]
OPS_SHIFT_UBIG = ['%s.big.%s' % (d, s) for d in ('shlU', 'shrU') for s in SH4]
OPS_ABC = ['nt.MulAdd.mul_add', 'nt.MulAddAssign.mul_add_assign']
OPS_ABCH = ['ct.select', 'ct.assign', 'ct.swap']
OPS_K = ['nt.FromPrimitive.from_' + t for t in PRIM12] + ['nt.NumCast.from.' + t for t in PRIM12]
OPS_BYTES = ['bits.try_from_be_slice', 'bits.try_from_le_slice', 'nt.FromBytes.from_le_bytes',
             'nt.FromBytes.from_be_bytes', 'nt.FromBytes.from_ne_bytes']
OPS_EXACT = ['bits.from_be_bytes', 'bits.from_le_bytes']
OPS_RADIX = ['bits.from_str_radix', 'nt.Num.from_str_radix']
OPS_LIST = ['sum.v', 'sum.r', 'prod.v', 'prod.r']
OPS_NULL = ['nt.Zero.zero', 'nt.One.one', 'nt.Bounded.min_value', 'nt.Bounded.max_value',
            'nt.LowerBounded.min_value', 'nt.UpperBounded.max_value', 'bits.default', 'bits.consts']
ALL_OPS = (OPS_AB + OPS_A + OPS_SHIFT_PRIM + OPS_AN + OPS_SHIFT_U + OPS_SHIFT_UBIG + OPS_ABC + OPS_ABCH
           + ['ct.negate', 'nt.PrimInt.pow', 'bits.from_limbs', 'bits.from_str'] + OPS_K + OPS_BYTES + OPS_EXACT
           + OPS_RADIX + OPS_LIST + OPS_NULL)


TRUSTED = ['the choice of the inherent counterpart per facade entry point (op table at the top of harness/src/bin/c20.rs): '
           'by the meaning of the trait method, never by what the facade body calls',
           'value-level specifications of the inherent operations used in the model column (wrapping/checked/saturating/'
           'overflowing add/sub/mul, div/rem, shifts, rotations, counts, byte strings, gcd/lcm via Nat.gcd/Nat.lcm): plain Nat '
           'arithmetic in lean/Ruint/Drv/C20.lean; their limb-level proofs belong to C01-C08, C12, C13']
ASSUMPTIONS = ['documented divergences, judged as such by the parity predicate and counted in the evidence by op: '
               '(1) Uint::bit_ct panics for index >= BITS (documented) while Uint::bit returns false: F=panic, I=f accepted only '
               'for index >= BITS; (2) the num-integer trait DEFAULT next_multiple_of wraps on overflow where the inherent '
               'Uint::next_multiple_of panics: accepted only when I=panic and F equals the model of the default; '
               '(3) unwrap facades (Integer::lcm / gcd_lcm, FromBytes::from_*_bytes, PrimInt::swap_bytes / to_be / from_be): the '
               'facade signature cannot express the None of the inherent method, F=panic is accepted exactly when I=none; '
               '(4) PrimInt::pow(u32) is compared with Uint::pow(a, Uint::from(e)): for e >= 2^BITS (only possible at BITS < 32) '
               'the conversion Uint::from panics on both sides; (5) PrimInt::swap_bytes at widths that are not a multiple of 8 is '
               'documented as not well defined (it panics whenever the reversed byte string does not fit)',
               'little-endian host (to_le/from_le/to_ne_bytes branches for big-endian targets are not exercised)',
               'constant-time behaviour of the subtle impls is not expressible in this model and is not claimed']
TIMEOUT = 900


def nontrivial(c, i):
    t = c.split(' ')
    return len(t) > 2 and t[1] != '0' and any(x not in ('0', '-', 'EMPTY') and x.strip('0,') != '' for x in t[2:])


# ---- value classes -------------------------------------------------------------------------------

def nbytes(bits):
    return (bits + 7) // 8


def dedupe(xs):
    seen = set()
    out = []
    for x in xs:
        if x not in seen:
            seen.add(x)
            out.append(x)
    return out


def set_limb(v, i, w):
    return (v & ~(0xffffffffffffffff << (64 * i))) | (w << (64 * i))


def limb_diff_pairs(rng, bits):
    """pairs equal except in exactly one limb (lowest / middle / highest), and 'crossed' pairs whose high
    and low limbs order differently (catch limb scans running in the wrong direction)"""
    n = nlimbs(bits)
    m = 1 << bits
    out = []
    base = rand_bits(rng, bits)
    idx = dedupe([0, n // 2, n - 1])
    for i in idx:
        lb = min(64, bits - 64 * i)
        w = (base >> (64 * i)) & ((1 << lb) - 1)
        for w2 in dedupe([(w + 1) % (1 << lb), (w - 1) % (1 << lb), rand_bits(rng, lb), w ^ (1 << (lb - 1))]):
            other = set_limb(base, i, w2) % m
            out.append((base, other))
            out.append((other, base))
    if n >= 2:
        for _ in range(3):
            lo1, lo2 = sorted([rng.getrandbits(64), rng.getrandbits(64)])
            tb = bits - 64 * (n - 1)
            hi1, hi2 = sorted([rand_bits(rng, tb), rand_bits(rng, tb)])
            mid = rand_bits(rng, bits) if n > 2 else 0
            x = set_limb(set_limb(mid, 0, lo1), n - 1, hi2) % m   # high limb larger, low limb smaller
            y = set_limb(set_limb(mid, 0, lo2), n - 1, hi1) % m
            out += [(x, y), (y, x)]
    return out


def palindromes(rng, bits):
    """values whose BYTES-long big-endian image is / is not a byte palindrome; non-palindromes whose
    reversal fits and whose reversal does not fit (non byte aligned widths)"""
    nb = nbytes(bits)
    if nb == 0:
        return [0]
    topbits = bits - 8 * (nb - 1)
    out = []
    for _ in range(2):
        half = [rng.getrandbits(8) for _ in range((nb + 1) // 2)]
        half[0] &= (1 << topbits) - 1
        bs = half + half[:nb // 2][::-1]
        out.append(int.from_bytes(bytes(bs[:nb]), 'big'))
    # non palindrome, reversal fits: low byte < 2^topbits
    v = rand_bits(rng, bits)
    out.append((v & ~0xff) | (v & 0xff & ((1 << topbits) - 1)))
    # reversal does not fit (only when the top byte is partial)
    out.append((rand_bits(rng, bits) | 0xff) & ((1 << bits) - 1))
    out.append(1 % (1 << bits))
    out.append((1 << (8 * (nb - 1))) % (1 << bits))
    return out


def targeted_pairs(rng, bits):
    m = 1 << bits
    mx = m - 1
    v = lambda: value(rng, bits)
    a = v()
    out = [(a, 0), (0, v()), (0, 0), (a, a), (mx, mx), (mx, 1 % m), (mx, v()), (v(), mx), (1 % m, v()), (v(), 1 % m),
           (mx, 2 % m), (mx, (mx - 1) % m), ((mx - 1) % m, mx), (1 % m, 1 % m), (2 % m, 2 % m)]
    out += limb_diff_pairs(rng, bits)
    # lcm / product boundaries: p*q just below 2^bits, p*(q+1) just above
    for _ in range(3):
        k = rng.randrange(1, bits + 1)
        p = rand_bits(rng, k) | 1
        q = mx // p
        out += [(p, q), (p, (q + 1) % m), (q, p), ((p + 1) % m, q)]
    i = rng.randrange(bits + 1)
    out += [((1 << i) % m, (1 << (bits - i)) % m), ((1 << i) % m, ((1 << (bits - i)) - 1) % m)]
    # common factor
    g = rand_bits(rng, rng.randrange(1, max(2, bits // 2 + 1))) | 1
    x, y = rand_bits(rng, max(1, bits // 4)) | 1, rand_bits(rng, max(1, bits // 4)) | 1
    out += [((g * x) % m, (g * y) % m)]
    # multiples and off by one
    for _ in range(3):
        b = rand_bits(rng, rng.randrange(1, bits + 1)) or 1
        k = rng.randrange(0, mx // b + 1)
        out += [(b * k, b), ((b * k + 1) % m, b), ((b * k - 1) % m, b)]
    # division shapes: quotient 0 / 1, divisor one limb / top bit set
    b = v() or 1
    out += [((b - 1) % m, b), ((b + 1) % m, b), (v(), (1 << (bits - 1))), (v(), (1 << 64) % m), (v(), rng.getrandbits(64) % m)]
    # byte palindromes
    ps = palindromes(rng, bits)
    out += [(p, ps[(j + 1) % len(ps)]) for j, p in enumerate(ps)]
    # pow pairs
    out += [(2 % m, (bits - 1) % m), (2 % m, bits % m), (3 % m, rng.randrange(0, 2 * bits + 2) % m), (a, 0), (a, 1 % m),
            (a, 2 % m), (a, 3 % m), (mx, 2 % m), (rng.randrange(0, 16) % m, rng.randrange(0, 64) % m), (0, 0), (0, v())]
    return [(x % m, y % m) for x, y in out]


def tuples(rng, bits, n):
    """(a, b, c) operand tuples for one width"""
    if bits == 0:
        return [(0, 0, 0)]
    out = [(a, b, value(rng, bits)) for a, b in targeted_pairs(rng, bits)]
    while len(out) < n:
        a, b = pair(rng, bits)
        out.append((a, b, near(rng, bits, a) if rng.random() < 0.3 else value(rng, bits)))
    out = dedupe(out)
    return out[:max(n, 1)] if bits > 3 else out


def unary_values(rng, bits, n):
    if bits == 0:
        return [0]
    m = 1 << bits
    out = [0, 1 % m, m - 1, (m - 2) % m, 1 << (bits - 1), (1 << (bits - 1)) - 1]
    for k in (7, 8, 15, 16, 31, 32, 63, 64, 127, 128):   # ToPrimitive boundaries
        for d in (-1, 0, 1):
            x = (1 << k) + d
            if x < m:
                out.append(x)
    out += palindromes(rng, bits)
    out += palindromes(rng, bits)
    while len(out) < n:
        out.append(value(rng, bits))
    return dedupe(out)[:max(n, 60)]


def amounts(rng, bits, nrand):
    out = [0, 1, 63, 64, 65, max(bits - 1, 0), bits, bits + 1, 2 * bits, 2**32 - 1, 2**32, 2**63, 2**64 - 1,
           0x7f, 0x80, 0xff, 0x100, 0x7fff, 0x8000, 0xffff, 0x10000,
           0x100 + (bits // 2), 0x10000 + (bits // 3), 2**32 + (bits // 2),       # truncate to a small amount
           2**64 - 2, 2**64 - bits - 1 if bits else 2**64 - 1, 2**63 + 1, 0xffffff80, 0xffffffffffff8001]
    for _ in range(nrand):
        out.append(rng.randrange(bits) if bits else 0)
    return dedupe(out)


def an_pairs(rng, bits, per_amount, nrand):
    m = 1 << bits
    out = []
    for n in amounts(rng, bits, nrand):
        if bits == 0:
            out.append((0, n))
            continue
        out.append((value(rng, bits), n))
        for _ in range(per_amount - 1):
            out.append((rng.choice([m - 1, 1 % m, 1 << (bits - 1), rand_bits(rng, bits), (m - 1) >> 1,
                                    rand_bits(rng, bits) | (1 << (bits - 1)) | 1]), n))
    return dedupe(out)


def prim_patterns(rng, bits, nrand):
    """u128 bit patterns for FromPrimitive / NumCast (the harness casts with `as T`)"""
    M = 1 << 128
    out = [0, 1, 2]
    for k in dedupe([bits, 7, 8, 15, 16, 31, 32, 63, 64, 127, 128]):
        for d in (-1, 0, 1):
            out.append(((1 << k) + d) % M)
    for x in (1, 2, 0x80, 0x81, 0x8000, 0x80000000, 1 << 63, (1 << 63) + 1, 1 << 127, (1 << bits) % M or 1,
              ((1 << bits) - 1) % M or 1):
        out.append((M - x) % M)                      # negative in i128; high bits set in narrower types
    for _ in range(nrand):
        out.append(rand_bits(rng, rng.choice([8, 16, 32, 64, 128, max(1, min(128, bits)), max(1, min(128, bits + 1))])))
    return dedupe(out)


def byte_strings(rng, bits, extra):
    """byte strings of every length 0..BYTES+2: raw random ones, and values that fit encoded big- and
    little-endian (zero padded beyond BYTES), plus the MAX / 2^bits boundaries with and without padding"""
    nb = nbytes(bits)
    out = []
    for ln in range(0, nb + 3):
        out.append(bytes(rng.getrandbits(8) for _ in range(ln)))
        v = rand_bits(rng, min(bits, 8 * ln))
        out += [v.to_bytes(ln, 'big'), v.to_bytes(ln, 'little')]
    if nb:
        mx = (1 << bits) - 1
        out += [mx.to_bytes(nb, 'big'), mx.to_bytes(nb, 'little'), (1 << bits).to_bytes(nb + 1, 'big'),
                (1 << bits).to_bytes(nb + 1, 'little'), bytes([0xff] * nb), bytes(nb), bytes(nb + 1), bytes(nb + 2),
                b'\x00' + mx.to_bytes(nb, 'big'), mx.to_bytes(nb, 'little') + b'\x00',
                mx.to_bytes(nb, 'big') + b'\x00', b'\x00' + mx.to_bytes(nb, 'little')]
        if bits % 8:
            out += [(1 << bits).to_bytes(nb, 'big'), (1 << bits).to_bytes(nb, 'little')]
        for _ in range(extra):
            v = value(rng, bits)
            ln = rng.randrange((v.bit_length() + 7) // 8, nb + 1)
            out += [v.to_bytes(ln, 'big'), v.to_bytes(ln, 'little')]
    return dedupe(out)


def bhex(b):
    return b.hex() if b else '-'


DIG36 = '0123456789abcdefghijklmnopqrstuvwxyz'
DIG64 = 'ABCDEFGHIJKLMNOPQRSTUVWXYZabcdefghijklmnopqrstuvwxyz0123456789+/'


def to_radix(rng, v, radix, mixcase=False):
    if radix < 2:
        return '0'
    ds = []
    while True:
        ds.append(v % radix)
        v //= radix
        if v == 0:
            break
    if radix <= 36:
        s = ''.join(DIG36[d] for d in reversed(ds))
        if mixcase:
            s = ''.join(ch.upper() if rng.random() < 0.5 else ch for ch in s)
        return s
    alt = {62: '+-', 63: '/_'}
    return ''.join(rng.choice(alt[d]) if d in alt else DIG64[d] for d in reversed(ds))


def radix_cases(rng, bits, per_radix):
    """(radix, string) pairs; strings over [0-9a-zA-Z_+/-], `EMPTY` for the empty string"""
    m = 1 << bits
    out = []
    for radix in (2, 8, 10, 16, 36, 64, 37, 63, 3):
        vals = [0, 1 % m, m - 1, m, m + 1 + rand_bits(rng, 8), m * radix, rand_bits(rng, bits), rand_bits(rng, max(1, bits // 2))]
        for _ in range(per_radix):
            vals.append(value(rng, bits))
        for v in vals:
            out.append((radix, to_radix(rng, v, radix, mixcase=rng.random() < 0.3)))
        s = to_radix(rng, rand_bits(rng, bits), radix)
        out.append((radix, '000' + s))
        out.append((radix, '_' + s + '_'))
        if len(s) > 1:
            out.append((radix, s[:1] + '_' + s[1:]))
            out.append((radix, s[:1] + '-' + s[1:]))
            out.append((radix, s[:1] + '+' + s[1:]))
        # a digit that is out of range for the radix
        bad = DIG36[radix] if radix < 36 else ('+' if radix == 36 else 'z')
        out.append((radix, s + bad))
        out.append((radix, bad))
        out += [(radix, 'EMPTY'), (radix, '_'), (radix, '__'), (radix, '0'), (radix, '-'), (radix, '/'), (radix, 'Z'),
                (radix, 'zz'), (radix, 'g')]
    for radix in (0, 1, 65, 2**32 - 1, 2**32, 2**32 + 10, 2**32 + 16, 2**63, 2**64 - 1):
        out += [(radix, '0'), (radix, '1'), (radix, 'EMPTY'), (radix, to_radix(rng, rand_bits(rng, bits), 10)), (radix, 'ff'),
                (radix, 'zz')]
    return dedupe(out)


def fromstr_cases(rng, bits):
    m = 1 << bits
    out = ['EMPTY', '0', '0x', '0X', '0b', '0o', '0x0', '00', '0x_', 'x', '0xg', '0b2', '0o8', '1_0', '-1', '+1', '0B1', '0O7']
    for v in (0, 1 % m, m - 1, m, m + 1, rand_bits(rng, bits), value(rng, bits), value(rng, bits)):
        out += [str(v), '0x%x' % v, '0X%X' % v, '0o%o' % v, '0b' + bin(v)[2:], '0B' + bin(v)[2:], '0O%o' % v]
    return dedupe(out)


def limb_lists(rng, bits):
    n = nlimbs(bits)
    if n == 0:
        return ['-']
    m = 1 << bits
    full = 1 << (64 * n)
    vals = [0, m - 1, value(rng, bits), value(rng, bits), rand_bits(rng, bits)]
    if full > m:
        vals += [m, full - 1, m | rand_bits(rng, bits), rand_bits(rng, 64 * n) | m, 1 << (64 * n - 1)]
    return dedupe(','.join(hx((v >> (64 * i)) & 0xffffffffffffffff) for i in range(n)) for v in vals)


EXH7 = [0, 1, 2, 3, 5, 7, 8, 0x0f, 0x10, 0x2a, 0x3f, 0x40, 0x41, 0x55, 0x7e, 0x7f]


def gen(rng, tier):
    q = tier == 'quick'
    n_ab = 150 if q else 8000
    n_a = 70 if q else 4000
    per_amount = 2 if q else 48
    nrand_amt = 4 if q else 64
    n_abc = 40 if q else 1600
    n_prim = 6 if q else 120
    n_bytes = 6 if q else 80
    n_radix = 2 if q else 30
    n_lists = 2 if q else 25

    # exhaustive tiny widths, all two-operand ops
    exh7 = list(EXH7)
    if not q:
        exh7 = dedupe(exh7 + [rng.randrange(128) for _ in range(200)])[:48]
    for bits, vals in ((0, [0]), (1, [0, 1]), (7, exh7)):
        for a in vals:
            for b in vals:
                for op in OPS_AB:
                    yield '%s %d %s %s' % (op, bits, hx(a), hx(b))

    for bits in WIDTHS:
        m = 1 << bits
        ts = tuples(rng, bits, n_ab)
        for a, b, c in ts:
            ha, hb = hx(a), hx(b)
            for op in OPS_AB:
                yield '%s %d %s %s' % (op, bits, ha, hb)
        for a, b, c in ts[:n_abc]:
            for op in OPS_ABC:
                yield '%s %d %s %s %s' % (op, bits, hx(a), hx(b), hx(c))
            for ch in (0, 1):
                for op in OPS_ABCH:
                    yield '%s %d %s %s %d' % (op, bits, hx(a), hx(b), ch)
                yield 'ct.negate %d %s %d' % (bits, hx(a), ch)
        for a in unary_values(rng, bits, n_a):
            ha = hx(a)
            for op in OPS_A:
                yield '%s %d %s' % (op, bits, ha)
        for a, n in an_pairs(rng, bits, per_amount, nrand_amt):
            ha, hn = hx(a), hx(n)
            for op in OPS_SHIFT_PRIM:
                yield '%s %d %s %s' % (op, bits, ha, hn)
            for op in OPS_AN:
                yield '%s %d %s %s' % (op, bits, ha, hn)
            # shifts by a Uint: the amount must itself be a value of the type
            if n < m:
                for op in OPS_SHIFT_U:
                    yield '%s %d %s %s' % (op, bits, ha, hn)
        if bits > 64:
            big = [1 << 64, (1 << 64) + 1, (1 << 64) + bits // 2, (1 << (bits - 1)) | 1, m - 1, (m - 1) ^ 0xffffffffffffffff,
                   (rand_bits(rng, bits - 64) or 1) << 64 | rng.randrange(bits)]
            if not q:
                big += [(rand_bits(rng, bits - 64) or 1) << 64 | rng.randrange(bits) for _ in range(40)]
            for s in dedupe(big):
                a = rng.choice([m - 1, 1, value(rng, bits) or 1])
                for op in OPS_SHIFT_UBIG:
                    yield '%s %d %s %s' % (op, bits, hx(a), hx(s % m))
        # pow by u32
        bases = dedupe([0, 1 % m, 2 % m, 3 % m, m - 1, value(rng, bits), rand_bits(rng, max(1, bits // 4)) % m]
                       + ([] if q else [value(rng, bits) for _ in range(20)]))
        exps = dedupe([0, 1, 2, 3, rng.randrange(4, 40), bits, max(bits - 1, 0), 2**32 - 1, 2**32, 2**32 + 2, 2**31]
                      + ([m - 1, m, m + 1] if m < 2**32 else []) + ([] if q else [rng.randrange(0, 300) for _ in range(10)]))
        for a in bases:
            for e in exps:
                yield 'nt.PrimInt.pow %d %s %s' % (bits, hx(a), hx(e))
        # primitive inputs
        for k in prim_patterns(rng, bits, n_prim):
            for op in OPS_K:
                yield '%s %d %s' % (op, bits, hx(k))
        # byte strings
        for s in byte_strings(rng, bits, n_bytes):
            for op in OPS_BYTES:
                yield '%s %d %s' % (op, bits, bhex(s))
        nb = nbytes(bits)
        exact = [0, m - 1, value(rng, bits), rand_bits(rng, bits), rand_bits(rng, 8 * nb), (1 << (8 * nb)) - 1, m % (1 << (8 * nb))]
        exact += [] if q else [rand_bits(rng, 8 * nb) for _ in range(30)]
        for v in dedupe(exact):
            for op, order in (('bits.from_be_bytes', 'big'), ('bits.from_le_bytes', 'little')):
                yield '%s %d %s' % (op, bits, bhex(v.to_bytes(nb, order)))
        for l in limb_lists(rng, bits):
            yield 'bits.from_limbs %d %s' % (bits, l)
        # strings
        for radix, s in radix_cases(rng, bits, n_radix):
            for op in OPS_RADIX:
                yield '%s %d %s %s' % (op, bits, hx(radix), s)
        for s in fromstr_cases(rng, bits):
            yield 'bits.from_str %d %s' % (bits, s)
        # iterators
        for cnt in (0, 1, 2, 3, 5, 17):
            for _ in range(n_lists):
                xs = [value(rng, bits) for _ in range(cnt)]
                if cnt >= 2 and rng.random() < 0.3:
                    xs[rng.randrange(cnt)] = m - 1
                ls = ','.join(hx(x) for x in xs) if xs else '-'
                for op in OPS_LIST:
                    yield '%s %d %s' % (op, bits, ls)
        for op in OPS_NULL:
            yield '%s %d' % (op, bits)
