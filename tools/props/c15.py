"""C15 — limb-slice kernels (addmul, addmul_n, *_nx1, adc_n, sbb_n, shifts, cmp): case generator.

Case line: `op n arg...` where `n` = len(lhs) (informational), limb lists `a,b,c` (hex words, `-` empty).
"""
import os
from vgen import hx

BIN = 'c15'
DRV = 'drv_c15'
M = (1 << 64) - 1
RULE = ('corpus, then the model-vs-spec self check at bases 2..4, then exhaustive (lhs,a,b) triples over limb alphabets '
        '{0,1,2^63,MAX} (len<=2) and {0,MAX} (len<=3) for addmul/addmul_n and all shift amounts 0..63 on fixed slices, then '
        'structured cases: lengths 0..10 (sometimes up to 24) independently per slice argument; limbs from '
        '{0,1,2,MAX,MAX-1,2^63,2^k,random}; shapes zero-low / zero-high / zero-middle / both-ends / all-ones / single-bit / all-zero; '
        'accumulators placed so that lhs+a*b lands on W^n-1, W^n, W^n+1; accumulators shorter than the product; '
        'carry/borrow words 0,1,2,MAX,random; rhs longer/shorter than lhs for adc_n/sbb_n; unequal lengths for cmp and addmul_n; '
        'non-trivial = some argument limb non-zero; distinct by case hash')
TRUSTED = ['model-as-written domain: *_nx1 kernels only with |lhs| = |a| (the code `assume!`s it); shift amounts < 64']
ASSUMPTIONS = ['u64/u128 primitive arithmetic of Rust (wrapping_sub, shifts, `as u64`) is modelled by Nat arithmetic with explicit % 2^64 / % 2^128',
               'limb-slice arguments do not alias (guaranteed by &mut/& borrow rules)']
TIED = {'addmuln': (2, 3, 4), 'addmulnx1': (2, 3), 'submulnx1': (2, 3), 'adcn': (2, 3), 'sbbn': (2, 3), 'cmp': (2, 3)}
LISTARGS = {'addmul': (2, 3, 4), 'addmuln': (2, 3, 4), 'mulnx1': (2,), 'addnx1': (2,), 'addmulnx1': (2, 3), 'submulnx1': (2, 3),
            'adcn': (2, 3), 'sbbn': (2, 3), 'shl': (2,), 'shr': (2,), 'cmp': (2, 3)}
WORDARGS = {'mulnx1': (3,), 'addnx1': (3,), 'addmulnx1': (4,), 'submulnx1': (4,), 'adcn': (4,), 'sbbn': (4,),
            'adc': (2, 3, 4), 'sbb': (2, 3, 4), 'cadd': (2, 3), 'bsub': (2, 3)}


def ll(l):
    return ','.join(hx(x) for x in l) if l else '-'


def pl(s):
    return [] if s == '-' else [int(x, 16) for x in s.split(',')]


def val(l):
    v = 0
    for i, x in enumerate(l):
        v |= x << (64 * i)
    return v


def limbs_of(v, n):
    return [(v >> (64 * i)) & M for i in range(n)]


def word(rng):
    c = rng.randrange(12)
    if c == 0:
        return 0
    if c == 1:
        return 1
    if c == 2:
        return M
    if c == 3:
        return M - 1
    if c == 4:
        return 1 << 63
    if c == 5:
        return 1 << rng.randrange(64)
    if c == 6:
        return (1 << rng.randrange(65)) - 1
    if c == 7:
        return 2
    if c == 8:
        return rng.getrandbits(rng.randrange(65)) if True else 0
    return rng.getrandbits(64)


def length(rng, lo=0):
    r = rng.random()
    if r < 0.92:
        return rng.randrange(lo, 11)
    return rng.randrange(lo, 25)


def limbs(rng, n):
    """a limb list of length n from the structured shapes"""
    if n == 0:
        return []
    c = rng.randrange(13)
    if c == 0:
        return [0] * n
    if c == 1:
        return [M] * n
    if c == 2:  # single set bit
        k = rng.randrange(64 * n)
        return limbs_of(1 << k, n)
    base = [word(rng) if rng.random() < 0.5 else rng.getrandbits(64) for _ in range(n)]
    if c == 3:  # zero low limbs
        k = rng.randrange(n + 1)
        return [0] * k + base[k:]
    if c == 4:  # zero high limbs
        k = rng.randrange(n + 1)
        return base[:n - k] + [0] * k
    if c == 5:  # zero middle limbs
        i = rng.randrange(n)
        j = rng.randrange(i, n)
        return base[:i] + [0] * (j - i) + base[j:]
    if c == 6:  # zero at both ends
        i = rng.randrange(n + 1)
        j = rng.randrange(n + 1 - i)
        return [0] * i + base[i:n - j] + [0] * j
    if c == 7:  # all-ones run (carry chains)
        i = rng.randrange(n)
        j = rng.randrange(i, n + 1)
        return base[:i] + [M] * (j - i) + base[j:]
    if c == 8:  # every limb from {0, MAX, 1}
        return [rng.choice([0, M, 1]) for _ in range(n)]
    if c == 9:  # only the top (or bottom) limb set
        l = [0] * n
        l[rng.choice([0, n - 1])] = word(rng) or 1
        return l
    return base


def carry_word(rng):
    return rng.choice([0, 0, 1, 1, 2, M, M - 1, 1 << 63, rng.getrandbits(64)])


def addmul_cases(rng):
    """(lhs, a, b) with independent lengths and targeted relations"""
    r = rng.random()
    na, nb = length(rng), length(rng)
    a, b = limbs(rng, na), limbs(rng, nb)
    p = val(a) * val(b)
    if r < 0.35:
        return limbs(rng, length(rng)), a, b
    if r < 0.55:
        # accumulator length around the product's limb count (exactly fits / one short / one longer)
        need = (p.bit_length() + 63) // 64
        n = max(0, need + rng.choice([-2, -1, 0, 0, 1, 2]))
        return limbs(rng, n), a, b
    if r < 0.85:
        # lhs + a*b lands on W^n + d, d in {-1, 0, 1, ...}
        n = length(rng)
        Wn = 1 << (64 * n)
        d = rng.choice([-1, 0, 1, -2, 2, -(1 << 64), 1 << 64, -M, M])
        t = Wn + d - p
        if 0 <= t < Wn:
            return limbs_of(t, n), a, b
        return limbs_of(t % Wn if Wn > 1 else 0, n), a, b
    # accumulator shorter than one of the operands (short-window arm, early exits)
    n = rng.randrange(0, max(1, max(na, nb)))
    return limbs(rng, n), a, b


def case(op, *args):
    first = args[0]
    n = len(first) if isinstance(first, list) else 1
    toks = [op, str(n)]
    for x in args:
        toks.append(ll(x) if isinstance(x, list) else (x if isinstance(x, str) else hx(x)))
    return ' '.join(toks)


def exhaustive(alpha, maxlen):
    out = [[]]
    lists = [[]]
    cur = [[]]
    for _ in range(maxlen):
        cur = [l + [x] for l in cur for x in alpha]
        lists += cur
    return lists


def nontrivial(c, i):
    t = c.split(' ')
    if t[0] == 'selfcheck':
        return True
    return any(ch not in '0-,' for x in t[2:] for ch in x)


def gen(rng, tier):
    quick = tier == 'quick'
    yield 'selfcheck 2 4'
    yield 'selfcheck 3 3'
    yield 'selfcheck 4 3' if quick else 'selfcheck 5 3'
    # exhaustive small alphabets
    for alpha, ml in (([0, 1, 1 << 63, M], 2), ([0, M], 3)) if quick else (([0, 1, 2, 1 << 63, M], 2), ([0, 1, M], 3)):
        ls = exhaustive(alpha, ml)
        for lhs in ls:
            for a in ls:
                for b in ls:
                    yield case('addmul', lhs, a, b)
                    if len(lhs) == len(a) == len(b):
                        yield case('addmuln', lhs, a, b)
                if len(lhs) == len(a):
                    for wv in (0, 1, M):
                        yield case('addmulnx1', lhs, a, wv)
                        yield case('submulnx1', lhs, a, wv)
                        yield case('adcn', lhs, a, wv)
                        yield case('sbbn', lhs, a, wv)
                    yield case('cmp', lhs, a)
    # all shift amounts on fixed slices
    for l in ([], [1], [M], [1 << 63], [0x123456789abcdef0, 0xfedcba9876543210], [M, M, M], [1, 0, 1 << 63], [0, 0], [M, 0, M, 1]):
        for k in range(64):
            yield case('shl', l, str(k))
            yield case('shr', l, str(k))
    n = 40000 if quick else 6000000
    k = 0
    while k < n:
        k += 1
        r = rng.random()
        if r < 0.30:
            lhs, a, b = addmul_cases(rng)
            yield case('addmul', lhs, a, b)
        elif r < 0.42:
            m = rng.choice([0, 1, 1, 2, 2, 3, 3, 4, 4, 5, 6, 7, 8, 10, 16])
            lhs, a, b = limbs(rng, m), limbs(rng, m), limbs(rng, m)
            if rng.random() < 0.3 and m > 0:
                # wrapped sum landing on 0 / W^m - 1
                Wm = 1 << (64 * m)
                lhs = limbs_of((Wm + rng.choice([-1, 0, 1]) - val(a) * val(b)) % Wm, m)
            if rng.random() < 0.02:
                b = limbs(rng, max(0, m + rng.choice([-1, 1])))  # assert_eq! panic
            yield case('addmuln', lhs, a, b)
        elif r < 0.48:
            m = length(rng)
            yield case('mulnx1', limbs(rng, m), word(rng))
        elif r < 0.54:
            m = length(rng)
            l = limbs(rng, m)
            if rng.random() < 0.4 and m:  # long carry propagation
                j = rng.randrange(m + 1)
                l = [M] * j + l[j:]
            yield case('addnx1', l, word(rng))
        elif r < 0.62:
            m = length(rng)
            yield case('addmulnx1', limbs(rng, m), limbs(rng, m), word(rng))
        elif r < 0.70:
            m = length(rng)
            lhs, a, wv = limbs(rng, m), limbs(rng, m), word(rng)
            if rng.random() < 0.4:  # lhs close to a*w: borrow boundaries
                Wm = 1 << (64 * m)
                lhs = limbs_of((val(a) * wv + rng.choice([-1, 0, 1])) % Wm, m)
            yield case('submulnx1', lhs, a, wv)
        elif r < 0.80:
            m = length(rng)
            op = rng.choice(['adcn', 'sbbn'])
            lhs, rhs = limbs(rng, m), limbs(rng, m)
            q = rng.random()
            if q < 0.3 and m:
                Wm = 1 << (64 * m)
                if op == 'adcn':
                    lhs = limbs_of((Wm - val(rhs) + rng.choice([-2, -1, 0, 1])) % Wm, m)
                else:
                    lhs = limbs_of((val(rhs) + rng.choice([-1, 0, 1, 2])) % Wm, m)
            elif q < 0.38:
                rhs = rhs + limbs(rng, rng.randrange(1, 4))   # longer rhs: extra limbs ignored
            elif q < 0.40 and m:
                rhs = rhs[:rng.randrange(m)]                  # shorter rhs: index panic
            yield case(op, lhs, rhs, carry_word(rng))
        elif r < 0.84:
            yield case(rng.choice(['adc', 'sbb']), carry_word(rng) if rng.random() < 0.3 else word(rng), word(rng), carry_word(rng))
        elif r < 0.86:
            a = word(rng)
            b = rng.choice([word(rng), M - a, (M - a + 1) & M, a, (a + 1) & M, (a - 1) & M])
            yield case(rng.choice(['cadd', 'bsub']), a, b, rng.choice(['t', 'f']))
        elif r < 0.94:
            m = length(rng)
            yield case(rng.choice(['shl', 'shr']), limbs(rng, m), str(rng.randrange(64)))
        else:
            m = length(rng)
            l = limbs(rng, m)
            q = rng.random()
            if q < 0.25:
                rr = list(l)
            elif q < 0.6 and m:
                rr = list(l)
                i = rng.randrange(m)
                rr[i] = (rr[i] + rng.choice([-1, 1, 1 << 63])) & M
            elif q < 0.8:
                rr = limbs(rng, m)
            else:
                rr = limbs(rng, length(rng))
                if rng.random() < 0.5:
                    mm = min(len(rr), m)
                    rr[:mm] = l[:mm]
            yield case('cmp', l, rr)


def shrink_candidates(c):
    t = c.split(' ')
    op = t[0]
    if op == 'selfcheck':
        return
    la = LISTARGS.get(op, ())
    lists = {i: pl(t[i]) for i in la}

    def emit(ls, words=None):
        tt = list(t)
        for i, l in ls.items():
            tt[i] = ll(l)
        for i, v in (words or {}).items():
            tt[i] = hx(v)
        if la:
            tt[1] = str(len(ls[la[0]]))
        return ' '.join(tt)

    tied = TIED.get(op)
    if tied:
        n = min(len(lists[i]) for i in tied)
        for idx in ([n - 1, 0, n // 2] if n else []):
            ls = {i: list(l) for i, l in lists.items()}
            for i in tied:
                if idx < len(ls[i]):
                    del ls[i][idx]
            yield emit(ls)
    for i in la:
        if tied and i in tied and op not in ('adcn', 'sbbn', 'cmp'):
            continue
        l = lists[i]
        for idx in ([len(l) - 1, 0] if l else []):
            ls = dict(lists)
            ls[i] = l[:idx] + l[idx + 1:]
            if not tied or op in ('cmp',) or (op in ('adcn', 'sbbn') and i == 3 and len(ls[3]) >= len(lists[2])):
                yield emit(ls)
    for i in la:
        l = lists[i]
        for idx in range(len(l)):
            v = l[idx]
            for nv in (0, 1, v >> 1, v & (v - 1)):
                if nv != v:
                    ls = dict(lists)
                    ls[i] = l[:idx] + [nv] + l[idx + 1:]
                    yield emit(ls)
    for i in WORDARGS.get(op, ()):
        v = int(t[i], 16)
        for nv in (0, 1, v >> 1, v & (v - 1)):
            if nv != v:
                yield emit(lists, {i: nv})


def extra_checks(tier, rng, findings):
    """thorough tier: repeat the corpus and a structured sample against a --release build of the harness
    (debug assertions and overflow checks off: `assume!` becomes unreachable_unchecked, wraps are silent)."""
    if tier != 'thorough' and __import__('os').environ.get('VERIF_RELEASE_RERUN') != '1':
        return {}
    import itertools
    import os
    import vlib
    binpath, secs = vlib.build_harness(BIN, release=True)
    drv = os.path.join(vlib.LEAN, '.lake', 'build', 'bin', DRV)
    cases = []
    cpath = os.path.join(vlib.ROOT, 'corpus', 'C15.cases')
    if os.path.exists(cpath):
        cases += [l.strip() for l in open(cpath) if l.strip() and not l.startswith('#')]
    # slices whose lengths violate a documented precondition are undefined behaviour in release: keep only
    # cases whose debug outcome is not a panic by construction (equal lengths for the tied kernels)
    for c in itertools.islice(gen(rng, 'quick'), 120000):
        t = c.split(' ')
        if t[0] in ('adcn', 'sbbn') and len(pl(t[3])) < len(pl(t[2])):
            continue
        if t[0] == 'addmuln' and not (len(pl(t[2])) == len(pl(t[3])) == len(pl(t[4]))):
            continue
        cases.append(c)
    impl, _ = vlib.run_impl(binpath, cases)
    ms = vlib.run_model(drv, cases, impl)
    viol = []
    for c, i, (m, s) in zip(cases, impl, ms):
        k = vlib.classify(c, i, m, s)
        if k is not None:
            viol.append((k if k != 'model-error' else 'impl-violation', c + '   [release build]', i, m, s))
    return {'violations': viol[:50], 'coverage': {'release_rerun': {'cases': len(cases), 'mismatches': len(viol), 'cargo_s': round(secs, 1)}}}


# ----------------------------------------------------------------------------------------------
# (G) generated facts: the unrolled `addmul_1..4` bodies, re-extracted from the source on every run

GEN_REL = 'Ruint/Gen/AddmulN.lean'


def _extract_unrolled(src):
    """-> {k: [(target_index, a_index, b_index, carry_in('0'|'carry'), keeps_carry)]} or None"""
    import re
    out = {}
    for k in (1, 2, 3, 4):
        m = re.search(r'fn addmul_%d\(lhs: &mut \[u64\], a: &\[u64\], b: &\[u64\]\) \{(.*?)\n\}' % k, src, re.S)
        if not m:
            return None
        body = m.group(1)
        steps = []
        for line in body.split('\n'):
            line = line.strip()
            if not line or line.startswith('assume!') or line.startswith('//'):
                continue
            mm = re.fullmatch(r'(let carry = )?mac\(&mut lhs\[(\d+)\], a\[(\d+)\], b\[(\d+)\], (0|carry)\);', line)
            if not mm:
                return None
            steps.append((int(mm.group(2)), int(mm.group(3)), int(mm.group(4)), mm.group(5), bool(mm.group(1))))
        out[k] = steps
    m = re.search(r'match lhs\.len\(\) \{(.*?)\n    \}', src, re.S)
    if not m:
        return None
    arms = re.findall(r'^\s*(\d+) => (\w+)?', m.group(1), re.M)
    out['dispatch'] = [(int(n), f) for n, f in arms]
    return out


def _render(ex):
    L = ['import Ruint.Model.MulKernels',
         '/-! GENERATED by tools/props/c15.py (`translate`) from `src/algorithms/mul.rs` on every check run — do not edit.',
         '    The unrolled `addmul_1..4` bodies exactly as the source has them (target limb, operand limbs, carry use). -/',
         'namespace Ruint.Gen.AddmulN', 'open Ruint.Limb', '']
    for k in (1, 2, 3, 4):
        args = ' '.join(['l%d' % i for i in range(k)] + ['a%d' % i for i in range(k)] + ['b%d' % i for i in range(k)])
        L.append('def addmul%d (B %s : Nat) : List Nat :=' % (k, args))
        for (t, ai, bi, cin, keep) in ex[k]:
            L.append('  let (l%d, %s) := mac B l%d a%d b%d %s' % (t, 'carry' if keep else '_', t, ai, bi, cin))
        L.append('  [' + ', '.join('l%d' % i for i in range(k)) + ']')
        L.append('')
    L.append('/-- lengths that `addmul_n` dispatches to an unrolled body (the rest go to `addmul`; 0 is a no-op) -/')
    L.append('def unrolledLengths : List Nat := [' + ', '.join(str(n) for n, f in ex['dispatch'] if f and f.startswith('addmul_')) + ']')
    L.append('')
    L.append('end Ruint.Gen.AddmulN')
    return '\n'.join(L) + '\n'


def translate(repo, lean):
    info = _translate_addmul_n(repo, lean)
    import gentie
    words = gentie.gen_words(repo, lean)   # adc / sbb / DoubleWord helpers regenerated from the source (Gen/Words.lean)
    info['words'] = words
    info['changed'] = bool(info.get('changed')) or bool(words.get('changed'))
    return info


def _translate_addmul_n(repo, lean):
    import os
    path = os.path.join(lean, GEN_REL)
    try:
        src = open(os.path.join(repo, 'src', 'algorithms', 'mul.rs')).read()
        ex = _extract_unrolled(src)
    except OSError:
        ex = None
    if ex is None:
        return {'changed': False, 'obligations': [], 'unavailable': ['addmul_1..4 bodies: anchors not found in src/algorithms/mul.rs (tie skipped, committed Gen file kept)']}
    text = _render(ex)
    old = open(path).read() if os.path.exists(path) else None
    if old != text:
        os.makedirs(os.path.dirname(path), exist_ok=True)
        open(path, 'w').write(text)
    return {'changed': old is not None and old != text,
            'obligations': [],   # the Gen-dependent theorems (gen_addmul{1..4}_spec, gen_dispatch) live in Props/C15.lean and are counted there
            'extracted': {'addmul_%d' % k: ['lhs[%d] += a[%d]*b[%d] + %s%s' % (t, a, b, c, ' -> carry' if kp else '') for (t, a, b, c, kp) in ex[k]] for k in (1, 2, 3, 4)},
            'dispatch': ex['dispatch'], 'file': GEN_REL}
