"""C16 — every codec integration round-trips and emits its format's reference encoding; advertised lengths and
size hints are consistent. Case generator (values at every mode boundary, small values in wide types, all widths)."""
from vgen import *
from props.codec_common import *

BIN = 'c16'
DRV = 'drv_c16'
TIMEOUT = 900
OPS_ALL = ['arlp', 'frlp3', 'frlp4', 'rlp', 'rlpbits', 'scale', 'scalec', 'ssz', 'borsh', 'der', 'json', 'bincode',
           'bigint', 'ark4'] + ['pg_' + t for t in PG_TYPES]
FIXED_OPS = {'ptypes': [128, 256, 512], 'hbits': [128, 160, 256, 512], 'pod': [64, 128, 192, 256, 448, 512, 1024],
             'ark3': [64, 128, 256, 384, 448, 832]}
RULE = ('corpus, then for each of 29 generic encoder ops x 26 widths (0, 1, non-byte, BYTES%8=0 with BITS%64!=0, 440/448 = the '
        '55/56-byte RLP switch, 535/536 = the SCALE compact bound): every mode boundary +-1 that fits (0, 0x3f/0x40, 0x7f/0x80, '
        '2^14, 2^30, 2^56, 2^120, 2^(8k)-1, 2^(8k), 2^(8k-1), 10000^k, i16/i32/i64/money limits, 2^440), then structured values '
        '(45% boundaries, 15% small values in wide types, rest value classes); width-specific integrations (primitive-types, '
        'bytemuck, ark-ff 0.3) at their widths; exhaustive values at widths 0..8. Each line checks bytes = format definition, '
        'advertised length/size hint, decode(encode v) = v, and equality with the codec crate\'s own u64/u128 encoding '
        '(PRIM-MISMATCH marker). non-trivial = value != 0; distinct by case hash')
TRUSTED = ['external header/length rules are modelled from the vendored crate sources, not verified: alloy-rlp 0.3.16 / fastrlp 0.3, 0.4 '
           'Header::{encode,decode}, rlp 0.5.2 RlpStream::encode_value / Rlp::data, parity-scale-codec 3.7 Compact<u32> + Vec<u8>, '
           'der 0.7.10 Tag/Length/Header, bincode 1.3 length prefix, serde_json 1.0 string/number tokenizer, ethereum_ssz, borsh read_exact, '
           'num-bigint to_u64_digits, primitive-types/ark-ff/bytemuck layouts (little-endian host)',
           'the L1 byte operations the codecs call (to_be_bytes, as_le_bytes, *_trimmed, bit_len, byte_len, try_from_{be,le}_slice, '
           '{:#x} formatting, from_str) enter the codec models through their value-level specs (properties C06/C08/C09)']
ASSUMPTIONS = ['float column types (FLOAT4/FLOAT8) are excluded as the property states (C18 covers float conversions)',
               'SCALE compact encoding is a documented type-level restriction to BITS < 536 (assert_compact_supported): at BITS >= 536 '
               'the model and the implementation both panic by design',
               'nbytes(BITS) < 2^32 (SCALE/DER/bincode length fields) and < 2^64 (RLP length-of-length)']


import collections
ERR_KINDS = collections.Counter()   # error kinds / outcome classes hit by the IMPLEMENTATION in this run (evidence)


def _tally(c, i):
    t = c.split(' ')
    if t[0] == 'exh':
        for kv in i.split(' ')[1:]:
            k, _, n = kv.partition('=')
            if n.isdigit():
                ERR_KINDS['exh:' + t[2] + ':' + k] += int(n)
        return
    op = t[0]
    if op.startswith('d_') and i.startswith('err'):
        ERR_KINDS[op + ':' + i] += 1
    elif (op.startswith('d_') and i.startswith('ok')) or i == 'panic':
        ERR_KINDS[op + ':' + i.split(' ')[0]] += 1
    else:
        for tok in i.split(' '):
            if tok.startswith('err') or tok in ('PANIC', 'panic', 'PRIM-MISMATCH', 'DIFF', 'BITS-DIFF'):
                ERR_KINDS[op + ':' + tok] += 1


HOOK_LEGEND = {160: 'alloy-rlp encode 1-limb fast path', 161: '2-limb fast path', 162: 'general arm short form', 163: 'general arm long form (> 55 bytes)', 164: 'general arm single byte', 165: 'SCALE compact big-integer mode', 166: 'two-byte mode', 167: 'four-byte mode', 168: 'DER sign byte written', 169: 'postgres NUMERIC trailing zero digits trimmed'}


def extra_checks(tier, rng, findings):
    """no extra checks; reports the tally of implementation outcome kinds collected during the run"""
    kinds = dict(sorted(ERR_KINDS.items()))
    distinct = sorted(set(k.split(':', 1)[1] for k in kinds if not k.startswith('exh:')))
    return {'violations': [], 'known': {}, 'coverage': {'impl_outcome_kinds': kinds, 'distinct_error_kinds': distinct,
                                                        'hook_legend': {str(k): v for k, v in HOOK_LEGEND.items()}}}


def nontrivial(c, i):
    _tally(c, i)
    t = c.split(' ')
    return len(t) > 2 and t[2] not in ('0', '-')


def finding_tag(case, impl, model, spec):
    return None


def gen(rng, tier):
    thorough = tier != 'quick'
    # exhaustive small widths
    for bits in [0, 1, 2, 7, 8] if not thorough else [0, 1, 2, 7, 8, 12]:
        for v in range(1 << bits):
            for op in OPS_ALL:
                if bits >= 7 and not thorough and op.startswith('pg_') and v % 3:
                    continue
                yield '%s %d %x' % (op, bits, v)
    # every boundary value at every width, every op
    for bits in WIDTHS:
        bv = boundary_values(bits)
        for op in OPS_ALL:
            vals = bv
            if not thorough and len(bv) > 70:
                # keep format-relevant boundaries, subsample the 2^(8k) ladder
                core = [x for x in bv if x < (1 << 130) or x >= (1 << max(bits - 9, 0))
                        or any(abs(x - (1 << k)) <= 1 for k in (439, 440, 447, 448, 520, 528))]
                extra = [x for x in bv if x not in set(core)]
                vals = core + rng.sample(extra, min(len(extra), 10))
            for v in vals:
                yield '%s %d %x' % (op, bits, v)
    for op, ws in FIXED_OPS.items():
        for bits in ws:
            for v in boundary_values(bits):
                yield '%s %d %x' % (op, bits, v)
            for _ in range(40 if not thorough else 2000):
                yield '%s %d %x' % (op, bits, struct_value(rng, bits))
    n = 60000 if not thorough else 8000000
    for _ in range(n):
        bits = rng.choice(WIDTHS)
        yield '%s %d %x' % (rng.choice(OPS_ALL), bits, struct_value(rng, bits))


def translate(repo, lean):
    """(G) mode boundaries and prefix constants of the SCALE compact and alloy-rlp support code, re-extracted on every run"""
    return translate_codec_tables(repo, lean)
