"""C12 — gcd / lcm / gcd_extended / Lehmer update matrices: case generator.

Ops (case line `op bits args…`, numbers big-endian hex):
  gcd / lcm / gcdext / mfrom / gcdtrace  bits a b       Uint level (mfrom = LehmerMatrix::from, gcdtrace = the gcd loop
                                                         replayed in the harness, printing every matrix the implementation produced)
  mu64 64 r0 r1 · mpre 64 a0 a1 · m128 128 r0 r1         LehmerMatrix::{from_u64, from_u64_prefix, from_u128_prefix}
  apply bits m0 m1 m2 m3 s a b · applyu128 128 m… a b    LehmerMatrix::{apply, apply_u128}
  compose 64 m… n… · capply 128 m… n… a b                LehmerMatrix::compose (no contract: model comparison + apply∘apply evidence)
"""
from vgen import *

BIN = 'c12'
DRV = 'drv_c12'
TIMEOUT = 900
RULE = ('corpus (one witness per return site of from_u64_prefix, Euclid-fallback and prefix-glue boundaries), then all operand pairs at '
        'widths 0..5 (0..6 thorough) for gcd/lcm/gcdext/mfrom/gcdtrace, then structured pairs over 37 widths: consecutive Fibonacci-like pairs, '
        'one huge quotient, a=b, a=b+-1, common factor 2^k / large odd, equal leading 64/128 bits, pairs built by running the Euclidean recurrence '
        'backwards from chosen quotient sequences, 64-bit prefix pairs aimed at each return site embedded as leading words of wider values with random '
        'completions; LehmerMatrix::{from_u64,from_u64_prefix,from_u128_prefix,apply,apply_u128,compose} directly; non-trivial = width>0 and both operands non-zero; distinct by case hash')
TRUSTED = ['L1 value-level meaning of the Uint operations used inside the loops (bit_len, >>, try_into, Uint::from(u64), wrapping * and -, /, %=, checked_div, checked_mul): C01–C07 own them']
ASSUMPTIONS = ['harness built with the dev profile (debug_assert! and overflow checks on): documented panics of from_u64/from_u64_prefix/from_u128_prefix are compared as `panic`']

L32 = 1 << 32
M64 = (1 << 64) - 1


def nontrivial(c, i):
    t = c.split(' ')
    return t[1] != '0' and all(x not in ('0', '-') for x in t[-2:])


# ------------------------------------------------------------------------------------------------
# quotient sequences and backward Euclid

def quotient(rng, style):
    if style == 0:
        return 1
    if style == 1:  # Gauss–Kuzmin-like
        r = rng.random()
        return 1 if r < 0.415 else 2 if r < 0.585 else 3 if r < 0.678 else rng.randrange(4, 20)
    if style == 2:
        return rng.choice([1, 1, 1, 2, 3, 1 << rng.randrange(1, 34), (1 << rng.randrange(1, 34)) - 1])
    if style == 3:
        return rng.choice([1, 2, (1 << 31) - 1, 1 << 31, (1 << 32) - 1, 1 << 32, (1 << 32) + 1, (1 << 63), (1 << 64) - 1, 1 << 64, 1 << rng.randrange(60, 200)])
    return rng.randrange(1, 1 << rng.randrange(1, 70))


def backward(rng, bits, style=None, tail=None):
    """run r_{i-1} = q_i r_i + r_{i+1} backwards from a tail until the value would exceed `bits`; returns (a, b), a >= b."""
    if bits == 0:
        return 0, 0
    style = rng.randrange(5) if style is None else style
    if tail is None:
        g = rng.choice([1, 1, 2, 3, 1 << rng.randrange(bits), rand_bits(rng, rng.randrange(1, bits + 1)) | 1])
        g = max(1, g % (1 << bits))
        lo, hi = 0, g
    else:
        hi, lo = tail
    m = 1 << bits
    while True:
        q = quotient(rng, style if rng.random() < 0.9 else rng.randrange(5))
        nxt = q * hi + lo
        if nxt >= m:
            # try to finish with the largest quotient that fits
            if hi > 0 and rng.random() < 0.5:
                qmax = (m - 1 - lo) // hi
                if qmax >= 1:
                    q = rng.randrange(1, qmax + 1) if rng.random() < 0.5 else qmax
                    lo, hi = hi, q * hi + lo
            break
        lo, hi = hi, nxt
        if hi == 0:
            break
    return hi, lo


def fib_pair(rng, bits):
    """consecutive generalised Fibonacci numbers (all quotients 1) as large as the width allows"""
    if bits == 0:
        return 0, 0
    x, y = rng.choice([(0, 1), (1, 1), (1, 2), (1, 3), (2, 5), (rand_bits(rng, min(bits, 8)) % (1 << bits) or 1, 1)])
    x, y = min(x, y), max(x, y)
    m = 1 << bits
    if y >= m:
        return (m - 1, x % m)
    stop = rng.random() < 0.25
    lim = rng.randrange(1, bits + 1) if stop else bits
    while x + y < m and (x + y).bit_length() <= lim:
        x, y = y, x + y
    return y, x


# ------------------------------------------------------------------------------------------------
# 64-bit prefix pairs aimed at the return sites of from_u64_prefix

def lift64(rng, hi, lo, style=1):
    """continue the backward recurrence from (hi, lo), hi > lo, until hi is in [2^63, 2^64)"""
    while hi < (1 << 63):
        qmin = -(-((1 << 63) - lo) // hi)
        qmax = (M64 - lo) // hi
        if qmax >= qmin and qmin >= 1 and (hi >= (1 << 44) or rng.random() < 0.1):
            q = rng.randrange(qmin, qmax + 1)
        else:
            q = quotient(rng, style)
            if q * hi + lo > M64:
                q = max(1, qmax)
        lo, hi = hi, q * hi + lo
    return hi, lo


def prefix_pair(rng):
    """(a0, a1) with a0 in [2^63, 2^64), a1 <= a0"""
    c = rng.randrange(16)
    if c == 0:   # a1 < LIMIT: identity at once
        return (1 << 63) | rand_bits(rng, 63), rand_bits(rng, rng.randrange(0, 33)) % L32
    if c in (1, 2):   # a2 < LIMIT: early site (0,1,1,q) or identity, around a2 >= q and a1 - a2 >= 1
        a1 = rng.randrange(L32, 1 << rng.randrange(33, 64))
        qmax = M64 // a1
        qmin = max(1, -(-(1 << 63) // a1))
        q = rng.randrange(qmin, qmax + 1) if qmax >= qmin else qmax
        a2 = rng.choice([q, q - 1, q + 1, 0, 1, L32 - 1, rand_bits(rng, 32), rand_bits(rng, rng.randrange(1, 33))])
        a2 = max(0, min(a2, L32 - 1, a1 - 1))
        a0 = q * a1 + a2
        if a0 > M64:
            a0 = qmax * a1 + min(a2, M64 - qmax * a1)
        if a0 < (1 << 63):
            a0 |= 1 << 63
        return a0, min(a1, a0)
    if c in (3, 4, 5, 6):   # tail just around LIMIT with a small next remainder: "correct value is i" / "i+1" arms
        a2 = L32 + rng.choice([0, 1, 2, rand_bits(rng, 8), rand_bits(rng, 16), rand_bits(rng, 24), rand_bits(rng, 31), rand_bits(rng, 33)])
        a3 = rng.choice([0, 1, 2, rand_bits(rng, 8), rand_bits(rng, 16), rand_bits(rng, 24), rand_bits(rng, 30), rand_bits(rng, 31),
                         rand_bits(rng, 32), L32 - 1, L32 - 2])
        a3 = min(a3, a2 - 1)
        q = rng.choice([1, 1, 1, 2, 3, rng.randrange(1, 100)])
        a1 = q * a2 + a3
        return lift64(rng, a1, a2, rng.choice([0, 1, 1, 2]))
    if c in (7, 8):   # all quotients 1 above the tail
        a2 = L32 + rand_bits(rng, rng.randrange(1, 33))
        a3 = rand_bits(rng, rng.randrange(1, 33)) % a2
        return lift64(rng, a2 + a3, a2, 0)
    if c == 9:   # a1 = a0 or a0 - small
        a0 = (1 << 63) | rand_bits(rng, 63)
        return a0, a0 - rng.choice([0, 1, 2, rand_bits(rng, 16), rand_bits(rng, 33)]) % (a0 + 1)
    if c == 10:  # a1 around a0/2, a0/3
        a0 = (1 << 63) | rand_bits(rng, 63)
        d = rng.choice([2, 3, 4, 5])
        return a0, max(0, a0 // d + rng.choice([-2, -1, 0, 1, 2]))
    if c == 11:  # boundary values
        a0 = rng.choice([1 << 63, (1 << 63) + 1, M64, M64 - 1, (1 << 63) | L32, (1 << 63) | (L32 - 1)])
        a1 = rng.choice([0, 1, L32 - 1, L32, L32 + 1, 1 << 62, (1 << 63) - 1, 1 << 63, a0, a0 - 1, a0 >> 1, rand_bits(rng, 64)])
        return a0, min(a1, a0)
    if c in (12, 13):  # random quotient sequence down to a random tail
        t = rng.randrange(1, 1 << rng.randrange(2, 40))
        return lift64(rng, t + rng.randrange(1, t + 1), t, rng.choice([1, 2, 4]))
    a0 = (1 << 63) | rand_bits(rng, 63)
    return a0, rand_bits(rng, rng.randrange(30, 65)) % (a0 + 1)


def embed(rng, bits, a0, a1):
    """values of width `bits` whose leading 64 bits (after normalisation) are a0, a1: a = a0*K + alpha, b = a1*K + beta"""
    if bits <= 64:
        sh = 64 - bits
        return a0 >> sh, a1 >> sh
    s = rng.randrange(65, bits + 1) if rng.random() < 0.5 else bits   # bit length of a
    k = s - 64
    K = 1 << k
    al = rng.choice([0, K - 1, rand_bits(rng, k), rand_bits(rng, k)])
    be = rng.choice([0, K - 1, rand_bits(rng, k), rand_bits(rng, k)])
    a, b = a0 * K + al, a1 * K + be
    if b > a:
        b = a
    return a, b


# ------------------------------------------------------------------------------------------------
# Uint pairs

def upair(rng, bits):
    if bits == 0:
        return 0, 0
    m = 1 << bits
    c = rng.randrange(20)
    if c == 0:
        return fib_pair(rng, bits)
    if c == 1:   # one huge quotient (Euclid fallback): small b, or b = a >> k
        a = value(rng, bits) | (1 << (bits - 1))
        if rng.random() < 0.5:
            b = rand_bits(rng, rng.randrange(0, min(bits, 70) + 1))
        else:
            b = a >> rng.randrange(30, bits + 40)
        return a, b % m
    if c == 2:   # a = b, a = b +- 1
        a = value(rng, bits)
        return a, (a + rng.choice([0, 0, 1, -1])) % m
    if c == 3:   # common factor 2^k
        k = rng.randrange(bits)
        x, y = backward(rng, bits - k)
        return (x << k) % m, (y << k) % m
    if c == 4:   # large odd common factor
        gb = rng.randrange(1, bits + 1)
        g = rand_bits(rng, gb) | 1
        x, y = backward(rng, max(0, bits - g.bit_length()))
        return (g * x) % m, (g * y) % m
    if c in (5, 6):   # equal leading 64 / 128 bits
        top = rng.choice([64, 128, 32, 63, 65, 127, 129])
        if bits <= top:
            a = rand_bits(rng, bits)
            return a, near(rng, bits, a)
        s = rng.randrange(top + 1, bits + 1)
        t = rand_bits(rng, top) | (1 << (top - 1))
        lo = s - top
        return (t << lo) | rand_bits(rng, lo), (t << lo) | rand_bits(rng, rng.randrange(lo + 1))
    if c in (7, 8, 9, 10):
        a, b = backward(rng, bits)
        return a % m, b % m
    if c in (11, 12, 13, 14):
        a0, a1 = prefix_pair(rng)
        a, b = embed(rng, bits, a0, a1)
        return a % m, b % m
    if c == 15:  # second step hits the interesting prefix: b, then a = q*b + r with (b, r) embedded
        a0, a1 = prefix_pair(rng)
        hb = max(1, bits // 2)
        b, r = embed(rng, hb, a0, a1)
        if b == 0:
            return value(rng, bits), 0
        q = rng.choice([1, 2, 3, rand_bits(rng, 8) + 1, 1 << rng.randrange(0, max(1, bits - b.bit_length()))])
        a = q * b + r
        return (a % m, b) if a < m else (b, r)
    if c == 16:
        a = value(rng, bits)
        return a, value(rng, bits)
    if c == 17:  # bit length of a at the prefix-glue boundaries 64 / 65 / 128 / 129
        s = min(bits, rng.choice([1, 63, 64, 65, 66, 127, 128, 129, 130, 191, 192, 193]))
        a = (1 << (s - 1)) | rand_bits(rng, s - 1)
        b = rng.choice([a, a - 1, a >> 1, rand_bits(rng, s), rand_bits(rng, rng.randrange(s + 1)), a >> 33, a >> 31, a >> 32])
        return a, min(a, b)
    return pair(rng, bits)


def small_mat(rng, lim):
    return [rand_bits(rng, rng.randrange(0, lim + 1)) for _ in range(4)] + [rng.choice(['t', 'f'])]


def mstr(m):
    return ' '.join(hx(x) if not isinstance(x, str) else x for x in m)


def euclid_matrix(rng, a, b, steps):
    """cofactor matrix after `steps` Euclid steps on (a, b), in the implementation's implicit-sign layout"""
    u0, v0, u1, v1 = 1, 0, 0, 1
    even = True
    while b and steps:
        q = a // b
        a, b = b, a - q * b
        u0, v0, u1, v1 = u1, v1, u0 + q * u1, v0 + q * v1
        even = not even
        steps -= 1
    return [u0, v0, u1, v1, 't' if even else 'f']


UOPS = ['gcd', 'gcd', 'gcdext', 'gcdext', 'lcm', 'mfrom', 'gcdtrace']


def gen(rng, tier):
    n = 26000 if tier == 'quick' else 900000
    exh = 5 if tier == 'quick' else 6
    for bits in range(0, exh + 1):
        for a in range(1 << bits):
            for b in range(1 << bits):
                for op in ('gcd', 'gcdext', 'lcm', 'gcdtrace', 'mfrom'):
                    yield '%s %d %s %s' % (op, bits, hx(a), hx(b))
                if bits <= 3:
                    yield 'mu64 64 %s %s' % (hx(a), hx(b))
                    yield 'm128 128 %s %s' % (hx(a), hx(b))
    k = 0
    while k < n:
        r = rng.random()
        if r < 0.52:
            bits = rng.choice(GRID_ALL)
            a, b = upair(rng, bits)
            if rng.random() < 0.5:
                a, b = b, a
            op = rng.choice(UOPS)
            if op == 'mfrom' and a < b and rng.random() < 0.95:
                a, b = b, a
            if bits >= 1024 and op == 'gcdtrace' and rng.random() < 0.6:
                op = 'gcd'
            yield '%s %d %s %s' % (op, bits, hx(a), hx(b))
            if rng.random() < 0.15:   # same pair through the other entry points
                for op2 in ('gcd', 'gcdext', 'lcm', 'gcdtrace'):
                    if op2 != op and not (bits >= 1024 and op2 == 'gcdtrace'):
                        yield '%s %d %s %s' % (op2, bits, hx(a), hx(b))
                        k += 1
            k += 1
        elif r < 0.70:
            a0, a1 = prefix_pair(rng)
            yield 'mpre 64 %s %s' % (hx(a0), hx(a1))
            k += 1
            if rng.random() < 0.02:   # documented panics
                yield 'mpre 64 %s %s' % (hx(a0 >> rng.randrange(1, 64)), hx(a1 >> 64))
                yield 'mpre 64 %s %s' % (hx(a1), hx(a0))
                k += 2
        elif r < 0.78:
            c = rng.randrange(4)
            if c == 0:
                a, b = backward(rng, 64)
            elif c == 1:
                a, b = fib_pair(rng, 64)
            elif c == 2:
                a, b = upair(rng, rng.choice([8, 32, 63, 64]))
            else:
                a = rand_bits(rng, rng.randrange(65))
                b = rand_bits(rng, rng.randrange(65))
            if a < b and rng.random() < 0.97:
                a, b = b, a
            yield 'mu64 64 %s %s' % (hx(a), hx(b))
            k += 1
        elif r < 0.86:
            c = rng.randrange(4)
            if c == 0:
                a0, a1 = prefix_pair(rng)
                a, b = embed(rng, rng.randrange(65, 129), a0, a1)
            elif c == 1:
                a, b = backward(rng, rng.randrange(1, 129))
            elif c == 2:
                a, b = upair(rng, rng.choice([64, 65, 100, 127, 128]))
            else:
                a = rand_bits(rng, rng.randrange(1, 129)) | 1
                b = rand_bits(rng, rng.randrange(129))
            if a < b and rng.random() < 0.97:
                a, b = b, a
            if a == 0 and rng.random() < 0.9:
                a = 1
            yield 'm128 128 %s %s' % (hx(a), hx(b))
            k += 1
        elif r < 0.93:
            bits = rng.choice(GRID_ALL)
            m = 1 << bits
            c = rng.randrange(4)
            if c == 0 and bits > 0:   # a genuine Lehmer / Euclid cofactor matrix on the pair it belongs to
                a, b = upair(rng, bits)
                a, b = max(a, b), min(a, b)
                mt = euclid_matrix(rng, a, b, rng.randrange(1, 12))
                if max(mt[:4]) > M64:
                    mt = euclid_matrix(rng, a, b, 2)
                if max(mt[:4]) > M64:
                    mt = [1, 0, 0, 1, 't']
            elif c == 1:              # entries at the `Uint::from` fit boundary
                mt = [rng.choice([0, 1, m - 1, m, m + 1, rand_bits(rng, 64)]) & M64 for _ in range(4)] + [rng.choice(['t', 'f'])]
                a, b = pair(rng, bits)
            else:
                mt = small_mat(rng, min(64, max(1, bits)))
                a, b = pair(rng, bits)
            yield 'apply %d %s %s %s' % (bits, mstr(mt), hx(a), hx(b))
            k += 1
        elif r < 0.96:
            c = rng.randrange(3)
            if c == 0:
                a, b = backward(rng, 128)
                mt = euclid_matrix(rng, a, b, rng.randrange(1, 30))
                if max(mt[:4]) > M64:
                    mt = euclid_matrix(rng, a, b, 3)
                if max(mt[:4]) > M64:
                    mt = [1, 0, 0, 1, 't']
            else:
                mt = small_mat(rng, 64)
                a, b = pair(rng, 128)
            yield 'applyu128 128 %s %s %s' % (mstr(mt), hx(a), hx(b))
            k += 1
        else:
            m1 = small_mat(rng, 31)
            m2 = small_mat(rng, 31)
            if rng.random() < 0.5:
                yield 'compose 64 %s %s' % (mstr(m1), mstr(m2))
            else:
                a, b = pair(rng, 128)
                yield 'capply 128 %s %s %s %s' % (mstr(m1), mstr(m2), hx(a), hx(b))
            k += 1
