"""C18 — float conversions: case generator. Floats travel as bit patterns (hex of to_bits())."""
import math
import struct

from vgen import *

BIN = 'c18'
DRV = 'drv_c18'
WIDTHS = [0, 1, 2, 7, 8, 12, 24, 25, 32, 52, 53, 54, 63, 64, 65, 127, 128, 129, 256, 512, 1023, 1024, 1025,
          1087, 1088, 1100, 2048, 4096]
RULE = ('corpus, then per width (28 widths incl. 0, 52..54, 1023..1025, 1087/1088, 4096): float-to-Uint on f64/f32 BIT PATTERNS - '
        'every integer class in [2^52,2^53) (odd/even, ends), halves k+1/2 and their neighbours, 0.5-ulp/0.5/0.5+ulp, '
        '2^BITS-1/2, 2^BITS, largest below / smallest above, every exponent with min/max/random mantissa, subnormals, +-0, '
        '+-inf, quiet/signalling NaNs with payloads, negatives of all of these; Uint-to-float on values with 24/25/53/54/64/65 '
        'significant bits, round-bit/sticky-tail combinations incl. sticky bits below the 64-bit truncation, all-ones '
        'mantissas (carry into the next binade), the overflow thresholds 2^1024-2^970+-1 and 2^128-2^103+-1, monotonicity '
        'pairs; and the host-FPU validation ops hw_* (f+0.5, +, *, fmod, <, >=, u64->f64/f32, f32->f64, exp2 on every '
        'integer 0..1100) fed with the same patterns. Non-trivial = some argument non-zero; distinct by case hash')
TRUSTED = ['host FPU / libm (f + 0.5, u64 as f64/f32, f32 as f64, x * y, fmod, exp2 on integers): modelled bit-exactly in '
           'lean/Ruint/Model/Float.lean and compared with the hardware on every hw_* case of every run']
ASSUMPTIONS = ['exp2 of an integer argument is exact (2^k, +inf beyond the exponent range): checked against the host libm '
               'for every integer 0..1100 (f64) and 0..300 (f32) on every run',
               'NaN payloads are not modelled (all NaNs are one class)']
TIMEOUT = 1200

M52 = (1 << 52) - 1
M23 = (1 << 23) - 1


def nontrivial(c, i):
    return any(x not in ('0', '-') for x in c.split(' ')[2:])


def d2b(x):
    return struct.unpack('>Q', struct.pack('>d', x))[0]


def s2b(x):
    return struct.unpack('>I', struct.pack('>f', x))[0]


def dy64(m, e):
    """bit pattern of the f64 nearest to m*2^e (exact when representable); +inf on overflow"""
    try:
        return d2b(math.ldexp(float(m), e)) if m < (1 << 1000) else d2b(float(m) * 2.0 ** e)
    except OverflowError:
        return 0x7ff0000000000000


def mk64(be, frac, sign=0):
    return (sign << 63) | (be << 52) | frac


def mk32(be, frac, sign=0):
    return (sign << 31) | (be << 23) | frac


def mant_variants(rng, nbits):
    full = (1 << nbits) - 1
    return [0, 1, full, full - 1, 1 << (nbits - 1), (1 << (nbits - 1)) - 1, (1 << (nbits - 1)) + 1,
            rng.getrandbits(nbits), rng.getrandbits(nbits) | 1, rng.getrandbits(nbits) & ~1 & full]


def f64_patterns(rng, bits, n_rand):
    """non-negative f64 patterns interesting for width `bits`"""
    out = []
    # specials
    out += [0, 1, 2, M52, (1 << 52), mk64(0, rng.getrandbits(52)),  # zero, subnormals, min normal
            mk64(0x7ff, 0), mk64(0x7fe, M52), mk64(0x7fe, 0),      # inf, MAX
            mk64(0x7ff, 1 << 51), mk64(0x7ff, 1), mk64(0x7ff, M52), mk64(0x7ff, (1 << 51) | rng.getrandbits(51)),
            mk64(0x7ff, rng.getrandbits(51) | 1)]                   # NaNs quiet / signalling / payloads
    # around one half and small values
    h = mk64(1022, 0)
    out += [h - 2, h - 1, h, h + 1, h + 2, mk64(1021, M52), mk64(1021, 0), mk64(1023, 0), mk64(1023, 1), mk64(1023, 1 << 51),
            mk64(1023, (1 << 51) - 1), mk64(1023, (1 << 51) + 1), mk64(1024, 1 << 50), d2b(123.499), d2b(123.5), d2b(3.145),
            d2b(0.49999999999999994), d2b(1.4999999999999998), d2b(2.5), d2b(3.5)]
    # integers in [2^52, 2^53): the tie region
    b52 = 1 << 52
    for k in [0, 1, 2, 3, b52 - 1, b52 - 2, b52 - 3, b52 - 4, rng.getrandbits(52) | 1, rng.getrandbits(52) & ~1,
              rng.getrandbits(52) | 1, rng.getrandbits(52) | 3, (rng.getrandbits(52) & ~3) | 1]:
        out.append(mk64(1075, k & M52))
    # [2^53, 2^54) and [2^51, 2^52) neighbours of the region
    for k in [0, 1, M52, M52 - 1, rng.getrandbits(52)]:
        out.append(mk64(1076, k))
        out.append(mk64(1074, k))
    # halves k + 1/2, k < 2^52, and their float neighbours
    for _ in range(6):
        kb = rng.randrange(0, 53)
        k = rng.getrandbits(kb) if kb else 0
        if rng.random() < 0.3 and bits <= 52 and bits > 0:
            k = min(k, (1 << bits) - 1) if rng.random() < 0.5 else rng.choice([(1 << bits) - 1, (1 << bits) - 2, 1 << (bits - 1)])
        p = dy64(2 * k + 1, -1)
        out += [p, p - 1, p + 1]
    # around 2^bits
    if bits <= 1023:
        t = mk64(1023 + bits, 0)
        out += [t, t - 1, t - 2, t + 1, t + 2, mk64(1023 + bits, M52), mk64(1023 + bits, rng.getrandbits(52))]
        if 1 <= bits <= 52:
            out += [dy64((1 << (bits + 1)) - 1, -1), dy64((1 << (bits + 2)) - 1, -2), dy64((1 << (bits + 2)) - 3, -2),
                    dy64((1 << (bits + 1)) - 3, -1), dy64((1 << (bits + 1)) + 1, -1)]
        if bits >= 1:
            out += [mk64(1022 + bits, M52), mk64(1022 + bits, M52 - 1), mk64(1022 + bits, 0), mk64(1022 + bits, rng.getrandbits(52))]
        # the `exponent > BITS + 52` arm's neighbourhood
        for d in (51, 52, 53, 54, 64):
            if 1023 + bits + d < 0x7ff:
                out += [mk64(1023 + bits + d, 0), mk64(1023 + bits + d, M52), mk64(1023 + bits + d, rng.getrandbits(52))]
    # exponents near the width and a sweep over all in-range exponents
    top = min(bits + 3, 1023)
    es = list(range(0, top + 1)) if top <= 80 else sorted(set(
        list(range(0, 70)) + list(range(top - 10, top + 1)) + [rng.randrange(0, top + 1) for _ in range(30)]))
    for e in es:
        for fr in (0, M52, rng.getrandbits(52)):
            out.append(mk64(1023 + e, fr))
    # random: uniform exponent / uniform below the width / fully random
    for _ in range(n_rand):
        r = rng.random()
        if r < 0.4:
            out.append(mk64(rng.randrange(0, 0x7ff), rng.choice(mant_variants(rng, 52))))
        elif r < 0.8:
            out.append(mk64(1023 + rng.randrange(0, min(bits, 1023) + 2) - 1, rng.choice(mant_variants(rng, 52))))
        else:
            out.append(rng.getrandbits(63))
    return out


def f32_patterns(rng, bits, n_rand):
    out = [0, 1, M23, 1 << 23, mk32(0xff, 0), mk32(0xfe, M23), mk32(0xff, 1 << 22), mk32(0xff, 1), mk32(0xff, M23),
           mk32(0xff, rng.getrandbits(23) | 1)]
    hf = mk32(126, 0)
    out += [hf - 1, hf, hf + 1, mk32(127, 0), mk32(127, 1 << 22), mk32(127, 1), s2b(123.5), s2b(2.5), s2b(0.49999997)]
    for be in range(0, 0xff):       # every exponent
        for fr in (0, M23, rng.getrandbits(23)):
            out.append(mk32(be, fr))
    for _ in range(8):               # halves k + 1/2, k < 2^23; integers in [2^23, 2^24)
        kb = rng.randrange(0, 24)
        k = rng.getrandbits(kb) if kb else 0
        out.append(s2b(k + 0.5))
        out.append(mk32(150, rng.getrandbits(23)))
    if bits <= 127:
        t = mk32(127 + bits, 0)
        out += [t, t - 1, t + 1, mk32(127 + bits, M23)]
        if 1 <= bits <= 23:
            out += [s2b((1 << bits) - 0.5), s2b((1 << bits) - 0.75)] if bits <= 22 else [s2b((1 << bits) - 0.5)]
    for _ in range(n_rand):
        out.append(mk32(rng.randrange(0, 0xff), rng.choice(mant_variants(rng, 23))))
    return out


def to_float_values(rng, bits, n_rand):
    """Uint values whose conversion to f64/f32 exercises rounding, truncation below bit 64, carries, overflow"""
    if bits == 0:
        return [0]
    m = 1 << bits
    out = [0, 1, m - 1, m - 2, 1 << (bits - 1), (1 << (bits - 1)) - 1, (1 << (bits - 1)) + 1]
    lens = sorted(set(x for x in [1, 2, 23, 24, 25, 26, 52, 53, 54, 55, 56, 63, 64, 65, 66, 67, 88, 89, 100, 117, 118, 127, 128, 129,
                                  150, 200, 1000, 1023, 1024, 1025, 1077, 1086, 1087, 1088, 1089, bits - 1, bits,
                                  rng.randrange(1, bits + 1), rng.randrange(1, bits + 1)] if 1 <= x <= bits))
    for L in lens:
        for p in (24, 53):
            if L <= p:
                out.append((1 << (L - 1)) | rng.getrandbits(L - 1) if L > 1 else 1)
                continue
            tail = L - p           # bits below the kept mantissa
            for _ in range(2):
                top = (1 << (p - 1)) | rng.getrandbits(p - 1)
                tops = [top, top | 1, top & ~1, (1 << p) - 1, (1 << p) - 2, 1 << (p - 1)]
                for t in tops:
                    base = t << tail
                    rb = 1 << (tail - 1)        # the round bit
                    stickies = [0, 1]
                    if tail - 1 > 0:
                        stickies += [rb - 1, rng.getrandbits(tail - 1)]
                    cut = L - 64             # bits dropped by most_significant_bits
                    if cut > 0:
                        stickies += [1 << (cut - 1) if cut >= 1 else 0, (1 << cut) - 1, 1 << cut if cut < tail - 1 else 0,
                                     rng.getrandbits(cut)]
                    for st in stickies:
                        st &= rb - 1 if rb > 1 else 0
                        out.append(base | st)            # round bit clear
                        out.append(base | rb | st)       # round bit set (tie iff st == 0)
    # overflow thresholds
    for (E, T) in ((1024, 970), (128, 103)):
        if bits >= E:
            th = (1 << E) - (1 << T)
            out += [th - 1, th, th + 1, (1 << E) - (1 << (T + 1)), (1 << E) - (1 << (T + 1)) - 1, (1 << E) - (1 << (T + 1)) + 1,
                    (1 << E) - 1, th - (1 << (T - 40)), th + (1 << (T - 40))]
            if bits > E:
                out += [1 << E, (1 << E) + 1, (1 << (E + 1)) - 1]
    for _ in range(n_rand):
        out.append(value(rng, bits))
    return [x % m for x in out]


def gen(rng, tier):
    quick = tier == 'quick'
    nr = 40 if quick else 12000
    # ---- host FPU validation that does not depend on the width
    for k in range(0, 1101):
        yield 'hw_exp2 0 %x' % k
    for k in list(range(0, 301)) + [1 << 24, (1 << 24) + 1, 1 << 32]:
        yield 'hw_exp2f 0 %x' % k
    seen_hw = set()

    def hw(line):
        if line not in seen_hw:
            seen_hw.add(line)
            return [line]
        return []

    for bits in WIDTHS:
        # ---- float -> Uint, f64
        pats = f64_patterns(rng, bits, 400 if quick else nr)
        modulus = mk64(1023 + bits, 0) if bits <= 1023 else mk64(0x7ff, 0)
        for p in pats:
            for s in (0, 1):
                x = p | (s << 63)
                if s == 1 and rng.random() < 0.5 and quick:
                    continue
                yield 'tryf64 %d %x' % (bits, x)
                r = rng.random()
                if r < 0.15:
                    yield 'satf64 %d %x' % (bits, x)
                elif r < 0.3:
                    yield 'wrapf64 %d %x' % (bits, x)
                elif r < 0.38:
                    yield 'fromf64 %d %x' % (bits, x)
                # model sub-steps on the same pattern
                for l in hw('hw_addhalf 0 %x' % x):
                    yield l
                if rng.random() < 0.3:
                    for l in (hw('hw_lt64 0 %x 0' % x) + hw('hw_ge64 0 %x %x' % (x, modulus)) + hw('hw_lt64 0 %x %x' % (x, mk64(1022, 0)))
                              + hw('hw_ge64 0 %x %x' % (x, mk64(1075, 0))) + hw('hw_fmod64 0 %x %x' % (x, modulus))
                              + hw('hw_abs64 0 %x' % x) + hw('hw_isnormal64 0 %x' % x)):
                        yield l
        # ---- float -> Uint, f32
        for p in f32_patterns(rng, bits, 150 if quick else nr // 2):
            for s in (0, 1):
                x = p | (s << 31)
                if s == 1 and rng.random() < 0.6 and quick:
                    continue
                yield 'tryf32 %d %x' % (bits, x)
                r = rng.random()
                if r < 0.1:
                    yield 'satf32 %d %x' % (bits, x)
                elif r < 0.2:
                    yield 'wrapf32 %d %x' % (bits, x)
                elif r < 0.25:
                    yield 'fromf32 %d %x' % (bits, x)
                for l in hw('hw_f32f64 0 %x' % x):
                    yield l
        # ---- Uint -> float
        vals = to_float_values(rng, bits, nr)
        for v in vals:
            yield 'tof64 %d %x' % (bits, v)
            yield 'tof32 %d %x' % (bits, v)
            if rng.random() < 0.15:
                yield 'tof64v %d %x' % (bits, v)
                yield 'tof32v %d %x' % (bits, v)
            if rng.random() < 0.3:
                yield 'msb %d %x' % (bits, v)
            L = v.bit_length()
            e = max(L - 64, 0)
            top = v >> e
            for l in hw('hw_u64f64 0 %x' % top) + hw('hw_u64f32 0 %x' % top):
                yield l
            if rng.random() < 0.5:
                fx = dy64(top, 0)
                fe = mk64(1023 + e, 0) if e <= 1023 else mk64(0x7ff, 0)
                for l in hw('hw_mul64 0 %x %x' % (fx, fe)):
                    yield l
                try:
                    sx = s2b(float(top))
                except OverflowError:
                    sx = mk32(0xff, 0)
                se = mk32(127 + e, 0) if e <= 127 else mk32(0xff, 0)
                for l in hw('hw_mul32 0 %x %x' % (sx, se)):
                    yield l
        # monotonicity pairs
        if bits > 0:
            mm = 1 << bits
            for _ in range(len(vals) // 3):
                a = rng.choice(vals)
                c = rng.randrange(6)
                if c == 0:
                    b = (a + 1) % mm
                elif c == 1:
                    b = (a - 1) % mm
                elif c == 2:
                    b = (a + (1 << rng.randrange(bits))) % mm
                elif c == 3:
                    b = (a - (1 << rng.randrange(bits))) % mm
                elif c == 4:
                    b = rng.choice(vals)
                else:
                    k = max(a.bit_length() - rng.choice([24, 25, 53, 54, 64, 65]), 0)
                    b = (a + rng.choice([-1, 1]) * (1 << k)) % mm
                yield '%s %d %x %x' % (rng.choice(['mono64', 'mono32']), bits, a, b)
    # ---- thorough: every f32 exponent x 2^10 mantissas (top ten fraction bits swept, low bits random) at a few widths
    if not quick:
        for be in range(0, 0x100):
            for hi in range(1 << 10):
                fr = (hi << 13) | rng.getrandbits(13)
                x = mk32(be, fr)
                yield 'hw_f32f64 0 %x' % x
                for bits in (8, 64, 128):
                    yield 'tryf32 %d %x' % (bits, x)
    # ---- general validation of the IEEE model (+, *, fmod, comparisons) on random pattern pairs
    n = 4000 if quick else 1000000
    for _ in range(n):
        def rp64():
            r = rng.random()
            if r < 0.1:
                return rng.choice([0, 1 << 63, mk64(0x7ff, 0), mk64(0x7ff, 0) | (1 << 63), mk64(0x7ff, 1 << 51), 1, M52, 1 << 52,
                                   mk64(0x7fe, M52), mk64(1023, 0), mk64(1022, 0)])
            return (rng.getrandbits(1) << 63) | mk64(rng.randrange(0, 0x7ff), rng.choice(mant_variants(rng, 52)))

        def rp32():
            r = rng.random()
            if r < 0.1:
                return rng.choice([0, 1 << 31, mk32(0xff, 0), mk32(0xff, 0) | (1 << 31), mk32(0xff, 1 << 22), 1, M23, 1 << 23,
                                   mk32(0xfe, M23), mk32(127, 0)])
            return (rng.getrandbits(1) << 31) | mk32(rng.randrange(0, 0xff), rng.choice(mant_variants(rng, 23)))
        x, y = rp64(), rp64()
        if rng.random() < 0.5:   # close exponents: cancellation, carries, ties
            y = (y & ~(0x7ff << 52)) | (max(0, min(0x7fe, ((x >> 52) & 0x7ff) + rng.randrange(-60, 61))) << 52)
        op = rng.choice(['hw_add64', 'hw_mul64', 'hw_fmod64', 'hw_lt64', 'hw_ge64', 'hw_add64'])
        if op == 'hw_mul64' and rng.random() < 0.5:  # products landing in the subnormal / overflow range
            y = (y & ~(0x7ff << 52)) | (max(0, min(0x7fe, 2046 - ((x >> 52) & 0x7ff) + rng.choice([-1080, -1060, -1023, -1, 0, 1, 2]))) << 52)
        yield '%s 0 %x %x' % (op, x, y)
        x, y = rp32(), rp32()
        if rng.random() < 0.5:
            y = (y & ~(0xff << 23)) | (max(0, min(0xfe, ((x >> 23) & 0xff) + rng.randrange(-30, 31))) << 23)
        yield '%s 0 %x %x' % (rng.choice(['hw_add32', 'hw_mul32']), x, y)
        if rng.random() < 0.3:
            u = rng.getrandbits(rng.randrange(1, 65))
            yield 'hw_u64f64 0 %x' % u
            yield 'hw_u64f32 0 %x' % u
