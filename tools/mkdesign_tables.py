#!/usr/bin/env python3
"""Regenerate the as-built tables of DESIGN.md (between STATUS / FIXES markers) from evidence/*.json,
tools/claims.json, tools/asbuilt.json and known_findings.json."""
import json, os, glob, re
ROOT = os.path.dirname(os.path.dirname(os.path.abspath(__file__)))
claims = json.load(open(os.path.join(ROOT, 'tools', 'claims.json')))
asb = json.load(open(os.path.join(ROOT, 'tools', 'asbuilt.json')))
ev = {}
for f in glob.glob(os.path.join(ROOT, 'evidence', 'C*.json')):
    e = json.load(open(f))
    ev[e['property_id']] = e
rows = ['| prop | theorems (all audited) | full / partial | regenerated from source each run | modelled, not verified (trusted or observed) | quick run: cases / distinct non-trivial / wall |',
        '|---|---|---|---|---|---|']
for p in sorted(asb):
    a = asb[p]
    e = ev.get(p, {})
    c = e.get('coverage', {})
    rows.append('| %s | %s | %s | %s | %s | %s / %s / %s s |' % (
        p, c.get('obligations', '?'), a['strength'], a.get('gen', '—'), a['not_verified'],
        c.get('evaluations', '?'), c.get('distinct_nontrivial', '?'), e.get('wall_s', '?')))
status = '\n'.join(rows) + '\n'
kf = json.load(open(os.path.join(ROOT, 'known_findings.json')))
frows = ['| property | status | id | /repo commit | what failed | replay |', '|---|---|---|---|---|---|']
for k in kf:
    frows.append('| %s | %s | `%s` | %s | %s | `%s` |' % (
        k.get('property'), k.get('status'), k.get('id'), ('`%s`' % k['commit']) if k.get('commit') else '—',
        re.sub(r'\s+', ' ', k.get('what', ''))[:260].replace('|', '\\|'), str(k.get('replay', ''))[:90].replace('|', '\\|')))
fixes = '\n'.join(frows) + '\n'
p = os.path.join(ROOT, 'DESIGN.md')
s = open(p).read()
for tag, body in (('STATUS', status), ('FIXES', fixes)):
    a, b = '<!-- %s:BEGIN -->' % tag, '<!-- %s:END -->' % tag
    if a in s:
        s = s[:s.index(a) + len(a)] + '\n' + body + s[s.index(b):]
open(p, 'w').write(s)
print('tables written')
