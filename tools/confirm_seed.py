#!/usr/bin/env python3
"""Independently confirm seeded changes and file them under /verif/seeded/<id>/.
   tools/confirm_seed.py <batch dir> [ids...]
For each <batch>/<ID>_<n>/ (patch.diff, demo/, meta.json): in a scratch worktree of /repo HEAD created at the path the
demo crates reference, check (1) the patch applies, (2) the workspace test suite still passes with it,
(3) the demo fails with the change and (4) passes without it. Results go to seeded/<id>/meta.json ("confirmed")."""
import json, os, re, shutil, subprocess, sys, time
ROOT = os.path.dirname(os.path.dirname(os.path.abspath(__file__)))
ENV = dict(os.environ, CARGO_NET_OFFLINE='true')


def sh(cmd, cwd=None, timeout=3600, env=None):
    p = subprocess.run(cmd, cwd=cwd, capture_output=True, text=True, timeout=timeout, env=env or ENV)
    return p.returncode, p.stdout + p.stderr


def main():
    batch = sys.argv[1].rstrip('/')
    ids = sys.argv[2:] or sorted(d for d in os.listdir(batch) if re.fullmatch(r'C\d\d_\d+', d))
    # the demos reference the seeding agent's worktree path
    wt = None
    for sid in ids:
        for dp, dn, fn in os.walk(os.path.join(batch, sid, 'demo')):
            for x in fn:
                if x.endswith(('.toml', '.rs', '.sh')):
                    m = re.search(r'(/tmp/seedwt_[A-Za-z0-9_]+)', open(os.path.join(dp, x), errors='replace').read())
                    if m:
                        wt = m.group(1)
    assert wt, 'cannot find the worktree path the demos reference'
    tgt = os.path.join(batch, 'target')
    if os.path.exists(wt):
        sh(['git', '-C', '/repo', 'worktree', 'remove', '--force', wt])
    rc, out = sh(['git', '-C', '/repo', 'worktree', 'add', '--detach', wt, 'HEAD'])
    assert rc == 0, out
    head = sh(['git', '-C', '/repo', 'rev-parse', '--short', 'HEAD'])[1].strip()
    for sid in ids:
        sd = os.path.join(batch, sid)
        meta = json.load(open(os.path.join(sd, 'meta.json')))
        res = {'repo_head': head, 'at': time.strftime('%Y-%m-%dT%H:%M:%SZ', time.gmtime())}
        sh(['git', '-C', wt, 'reset', '-q', '--hard', 'HEAD'])
        demo = os.path.join(sd, 'demo')
        denv = dict(ENV, CARGO_TARGET_DIR=tgt)
        runner = ['cargo', 'run', '--offline', '-q'] if os.path.exists(os.path.join(demo, 'src', 'main.rs')) else ['cargo', 'test', '--offline', '-q']
        # (4) without the change
        rc0, out0 = sh(runner, cwd=demo, env=denv)
        res['demo_without_change'] = 'passes' if rc0 == 0 else 'FAILS rc=%d: %s' % (rc0, out0[-400:])
        # (1) apply
        rc, out = sh(['git', '-C', wt, 'apply', os.path.abspath(os.path.join(sd, 'patch.diff'))])
        if rc:
            rc, out = sh(['git', '-C', wt, 'apply', '--3way', os.path.abspath(os.path.join(sd, 'patch.diff'))])
        res['applies'] = rc == 0
        if rc == 0:
            # (3) with the change
            rc1, out1 = sh(runner, cwd=demo, env=denv)
            res['demo_with_change'] = ('fails rc=%d: %s' % (rc1, out1[-300:].strip())) if rc1 != 0 else 'PASSES (no failure shown)'
            # (2) suite
            rc2, out2 = sh(['cargo', 'test', '--workspace', '--no-fail-fast', '--offline'], cwd=wt, env=dict(ENV, CARGO_TARGET_DIR=os.path.join(batch, 'target_suite')))
            tr = re.findall(r'test result: (\w+)\. (\d+) passed; (\d+) failed', out2)
            res['suite'] = {'rc': rc2, 'passed': sum(int(x[1]) for x in tr), 'failed': sum(int(x[2]) for x in tr)}
            ok = rc0 == 0 and rc1 != 0 and rc2 == 0 and res['suite']['failed'] == 0 and res['suite']['passed'] >= 111
        else:
            ok = False
        res['confirmed'] = ok
        print('%s: %s  %s' % (sid, 'CONFIRMED' if ok else 'NOT CONFIRMED', json.dumps(res)[:400]), flush=True)
        if ok:
            dst = os.path.join(ROOT, 'seeded', sid)
            if os.path.exists(dst):
                shutil.rmtree(dst)
            os.makedirs(dst)
            shutil.copy(os.path.join(sd, 'patch.diff'), dst)
            shutil.copytree(demo, os.path.join(dst, 'demo'), ignore=shutil.ignore_patterns('target', 'Cargo.lock'))
            meta['confirmation'] = res
            meta['breaks_property'] = meta.get('property')
            json.dump(meta, open(os.path.join(dst, 'meta.json'), 'w'), indent=1)
        sh(['git', '-C', wt, 'reset', '-q', '--hard', 'HEAD'])
    sh(['git', '-C', '/repo', 'worktree', 'remove', '--force', wt])
    shutil.rmtree(tgt, ignore_errors=True)
    shutil.rmtree(os.path.join(batch, 'target_suite'), ignore_errors=True)


main()
