#!/usr/bin/env python3
"""tools/soak.py C01,C05 1 2 3 ...   — run quick checks under several seeds; print one line per run."""
import subprocess, sys, os, time
ROOT = os.path.dirname(os.path.dirname(os.path.abspath(__file__)))
props = sys.argv[1].split(',')
seeds = [int(x) for x in sys.argv[2:]] or [1, 2, 3]
bad = 0
for p in props:
    for s in seeds:
        t = time.time()
        r = subprocess.run([os.path.join(ROOT, 'check'), p, '--seed', str(s)], cwd=ROOT, capture_output=True, text=True)
        lines = [l for l in r.stdout.split('\n') if l.startswith(('VIOLATION', 'MODEL-ERROR', 'MACHINERY', 'KNOWN'))]
        print('%s seed=%d rc=%d %.0fs %s' % (p, s, r.returncode, time.time() - t, ' | '.join(l[:160] for l in lines)), flush=True)
        bad += r.returncode != 0
sys.exit(1 if bad else 0)
