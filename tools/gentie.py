"""(G) regenerate lean/Ruint/Gen/{Prelude,Words,WordsRedc,WordsDiv}.lean from the Rust sources with
tools/rs2lean.py. Only rewrites a file when its content changed (so lake does not rebuild needlessly)."""
import hashlib
import os
import rs2lean


def gen_words(repo, lean):
    files, errors = rs2lean.translate_all(repo)
    changed = []
    shas = {}
    for mod, code in files.items():
        path = os.path.join(lean, 'Ruint', 'Gen', mod + '.lean')
        old = open(path).read() if os.path.exists(path) else None
        if old != code:
            os.makedirs(os.path.dirname(path), exist_ok=True)
            with open(path, 'w') as f:
                f.write(code)
            changed.append(mod)
        shas[mod] = hashlib.sha256(code.encode()).hexdigest()[:16]
    return {'files': ['lean/Ruint/Gen/%s.lean' % m for m in files], 'changed': bool(changed), 'changed_modules': changed,
            'sha256': shas, 'translator_errors': errors}
