"""(G) regenerate lean/Ruint/Gen/Words.lean from the Rust sources with tools/rs2lean.py.
Only rewrites the file when its content changed (so lake does not rebuild needlessly)."""
import hashlib
import os
import rs2lean


def gen_words(repo, lean):
    code, errors = rs2lean.translate(rs2lean.default_items(repo))
    path = os.path.join(lean, 'Ruint', 'Gen', 'Words.lean')
    old = open(path).read() if os.path.exists(path) else None
    changed = old != code
    if changed:
        os.makedirs(os.path.dirname(path), exist_ok=True)
        with open(path, 'w') as f:
            f.write(code)
    return {'file': 'lean/Ruint/Gen/Words.lean', 'changed': changed, 'sha256': hashlib.sha256(code.encode()).hexdigest()[:16],
            'translator_errors': errors, 'committed_differs': changed}
