#!/usr/bin/env python3
"""rs2lean — a small translator from a straight-line subset of Rust (the word-level kernels of ruint)
to Lean 4 definitions over `Nat` with explicit fixed-width semantics.

Supported: `fn` items with integer / bool / tuple / `Wrapping<u64>` parameters, `let [mut]`, tuple patterns,
assignments and compound assignments, `if`/`else` (statement and expression form), early `return`,
method chains (`wrapping_*`, `overflowing_*`, `high/low/split`, `.0`), `as` casts, `T::from`, paths,
calls to other translated functions, local `const`/`static` tables with constant indices.
`debug_assert*!` are skipped (they are recorded as comments).  Every arithmetic operator is translated
with *wrapping* semantics at the operand type's width (what a release build computes); whether the
un-wrapped value is meant is for the theorems to show.

The emitted file is core Lean (no Mathlib) and is rebuilt from the Rust source on every run, so the
theorems stated about these definitions are re-checked against what the code says now.
"""
import re
import sys

WIDTH = {'u8': 8, 'u16': 16, 'u32': 32, 'u64': 64, 'u128': 128, 'usize': 64,
         'i8': 8,    # i8 only as a two's-complement byte: `-`, `==` and literal patterns (cmp's -1/0/1)
         # the other signed types only as two's-complement bit patterns: casts from unsigned words, `<<`, `|`, `MAX`, `MIN`
         'i16': 16, 'i32': 32, 'i64': 64, 'i128': 128, 'isize': 64,
         'char': 32}      # a `char` is its code point (`u64::from(c)`, literal and range patterns)
SIGNED = ('i8', 'i16', 'i32', 'i64', 'i128', 'isize')


class TranslateError(Exception):
    pass


FFMT = {'f64': 'Ruint.Float.b64', 'f32': 'Ruint.Float.b32'}      # float formats of the IEEE-754 model (`Model/Float.lean`)



def char_code(tok):
    """code point of a Rust char literal token like `'a'`, `'\\n'`, `'\\r'`, `'\\u{212a}'`"""
    body = tok[1:-1]
    esc = {'\\n': 10, '\\r': 13, '\\t': 9, '\\\\': 92, "\\'": 39, '\\"': 34, '\\0': 0}
    if body in esc:
        return esc[body]
    m = re.fullmatch(r'\\u\{([0-9a-fA-F_]+)\}', body)
    if m:
        return int(m.group(1).replace('_', ''), 16)
    m = re.fullmatch(r'\\x([0-9a-fA-F]{2})', body)
    if m:
        return int(m.group(1), 16)
    if len(body) == 1:
        return ord(body)
    raise TranslateError('char literal %s' % tok)

# ------------------------------------------------------------------------------------------------
# tokenizer

TOK = re.compile(r'''
    (?P<ws>\s+|//[^\n]*|/\*.*?\*/|'[A-Za-z_][A-Za-z0-9_]*(?!'))
  | (?P<str>"(?:[^"\\]|\\.)*"|'(?:[^'\\]|\\.)')
  | (?P<flt>[0-9][0-9_]*\.[0-9][0-9_]*(?:_?f(?:32|64))?)
  | (?P<num>0x[0-9a-fA-F_]+(?:_?[ui](?:8|16|32|64|128|size))?|0b[01_]+(?:_?[ui](?:8|16|32|64|128|size))?|0o[0-7_]+|[0-9][0-9_]*(?:_?[ui](?:8|16|32|64|128|size))?)
  | (?P<id>[A-Za-z_][A-Za-z0-9_]*!?)
  | (?P<op><<=|>>=|\.\.=|::|->|=>|==|!=|<=|>=|&&|\|\||<<|>>|\+=|-=|\*=|/=|%=|&=|\|=|\^=|\.\.|[-+*/%&|^!<>=.,;:(){}\[\]#?@])
''', re.X | re.S)


def tokenize(src):
    out = []
    i = 0
    while i < len(src):
        m = TOK.match(src, i)
        if not m:
            raise TranslateError('cannot tokenize at %r' % src[i:i + 30])
        i = m.end()
        if m.lastgroup == 'ws':
            continue
        out.append((m.lastgroup, m.group(m.lastgroup)))
    return out


def extract_fn(src, name):
    """source text of `fn name ... { body }` (first match outside tests)"""
    m = None
    for cand in re.finditer(r'\bfn\s+%s\s*(?=[<(])' % re.escape(name), src):
        # skip the generics (balanced `<…>`), then the parameter list (it may contain `;` inside array types), then look
        # for `{` before `;`
        k = cand.end()
        if src[k] == '<':
            depth = 0
            while True:
                depth += (src[k] == '<') - (src[k] == '>' and src[k - 1] != '-')
                k += 1
                if depth == 0:
                    break
        while src[k].isspace():
            k += 1
        if src[k] != '(':
            continue
        k += 1
        depth = 1
        while depth and k < len(src):
            depth += (src[k] == '(') - (src[k] == ')')
            k += 1
        b = src.find('{', k)
        sc = src.find(';', k)
        # a return type like `-> [u64; N]` also contains `;`: accept when the text up to `{` has balanced brackets
        if b >= 0 and (sc < 0 or b < sc or src[k:b].count('[') == src[k:b].count(']') and src[k:b].count('[') > 0 and ';' not in re.sub(r'\[[^\]]*\]', '', src[k:b])):
            m = cand
            break
    if not m:
        raise TranslateError('anchor not found: fn %s' % name)
    i = src.index('{', m.end())
    # find the body's opening brace: first '{' after the signature (signature has no braces in this subset)
    depth = 0
    j = i
    while True:
        c = src[j]
        if c == '{':
            depth += 1
        elif c == '}':
            depth -= 1
            if depth == 0:
                break
        j += 1
    return src[m.start():j + 1]


# ------------------------------------------------------------------------------------------------
# parser (AST as tuples)

class Parser:
    def __init__(self, toks):
        self.t = toks
        self.i = 0

    def peek(self, k=0):
        return self.t[self.i + k] if self.i + k < len(self.t) else ('eof', '')

    def next(self):
        tok = self.peek()
        if tok[0] == 'eof':
            raise TranslateError('unexpected end of the function text')
        self.i += 1
        return tok

    def accept(self, v):
        if self.peek()[1] == v:
            self.i += 1
            return True
        return False

    def expect(self, v):
        if not self.accept(v):
            raise TranslateError('expected %r, got %r (near token %d)' % (v, self.peek()[1], self.i))

    # types -------------------------------------------------------------------------------------
    def close_angle(self):
        """consume one `>` of a generic argument list (`>>` closes two levels: one is left in place)"""
        if self.accept('>'):
            return True
        if self.peek()[1] == '>>':
            self.t[self.i] = ('op', '>')
            return True
        return False

    def parse_type(self):
        if self.accept('('):
            ts = []
            while not self.accept(')'):
                ts.append(self.parse_type())
                self.accept(',')
            return ('tuple', ts)
        if self.accept('['):
            t = self.parse_type()
            if self.accept(']'):
                return 'slice'              # `[u64]`: a limb slice (List Nat)
            self.expect(';')
            n = self.parse_expr()
            self.expect(']')
            return ('array', t, n)
        if self.accept('&'):
            m = self.accept('mut')
            t = self.parse_type()
            if t == 'slice' and m:
                return 'mutslice'           # `&mut [u64]`: returned (updated) next to the function's own result
            if m and isinstance(t, tuple) and t and t[0] == 'generic' and t[1] == 'Vec' and len(t[2]) == 1:
                return 'mutslice'           # `&mut Vec<T>`: the vector's contents, returned (updated) like a `&mut [u64]`
            if t == 'str':
                return 'slice'              # `&str`: the sequence of its characters (code points)
            if m and isinstance(t, str) and (t in WIDTH or t == 'bool'):
                # `&mut u64` etc.: the write-back through the reference is not modelled — never drop it silently
                raise TranslateError('&mut %s: write-back through a scalar reference is outside the subset' % t)
            return t
        kind, v = self.next()
        if v == 'Wrapping':
            self.expect('<')
            t = self.parse_type()
            self.expect('>')
            return t  # Wrapping<u64> is u64 with wrapping operators = our default
        if v == 'Self':
            if self.accept('::'):
                return ('assoc', self.next()[1])       # `Self::Item`: resolved from `type Item = …;` of the source file
            return 'Self'
        if v == 'Option' and self.accept('<'):
            t = self.parse_type()
            if not self.close_angle():
                raise TranslateError('expected > after Option<T')
            return ('option', t)
        if v == 'Uint' and self.accept('<'):
            # `Uint<B, L>` of other const parameters: a limb list like `Self`
            depth = 1
            while depth:
                x = self.next()[1]
                if x == '>>' and depth == 1:
                    # `Option<Uint<B, L>>`: the second `>` closes the enclosing type
                    self.i -= 1
                    self.t[self.i] = ('op', '>')
                    break
                depth += (x == '<') - (x == '>') - 2 * (x == '>>')
            return 'uint'
        if kind == 'id' and v not in ('Result', 'Option', 'Wrapping', 'Uint') and self.peek()[1] == '<':
            self.next()
            args = []
            while not self.close_angle():
                args.append(self.parse_type())
                self.accept(',')
            return ('generic', v, args)
        if v == 'Result' and self.accept('<'):
            t = self.parse_type()
            self.expect(',')
            e = self.parse_type()
            if not self.close_angle():
                raise TranslateError('expected > after Result<T, E')
            return ('result', t, e)
        return v

    # function ----------------------------------------------------------------------------------
    def parse_fn(self):
        while self.peek()[1] in ('pub', 'const', 'unsafe', 'crate', '(', ')'):
            self.next()
        self.expect('fn')
        name = self.next()[1]
        consts = []
        typarams = []
        if self.accept('<'):
            depth = 1
            prev = '<'
            while depth:
                kind, v = self.next()
                if v == 'const' and depth == 1:
                    consts.append(self.peek()[1])
                elif kind == 'id' and depth == 1 and prev in ('<', ',') and v != 'const':
                    typarams.append(v)             # a type parameter (`I`, `I: IntoIterator<Item = u64>`)
                depth += (v == '<') - (v == '>') - 2 * (v == '>>')
                prev = v
        self.expect('(')
        params = []
        self_mut = False
        while not self.accept(')'):
            amp = self.accept('&')
            mt = self.accept('mut')
            if self.peek()[1] == 'self':
                self.next()
                params.append(('self', 'Self'))
                self_mut = bool(amp and mt)
            else:
                pn = self.next()[1]
                self.expect(':')
                params.append((pn, self.parse_type()))
            self.accept(',')
        ret = ('tuple', [])
        if self.accept('->'):
            ret = self.parse_type()
        if self.accept('where'):
            while self.peek()[1] != '{':
                self.next()
        body = self.parse_block()
        return {'name': name, 'params': params, 'ret': ret, 'body': body, 'consts': consts, 'self_mut': self_mut,
                'typarams': typarams}

    # statements --------------------------------------------------------------------------------
    def parse_block(self):
        self.expect('{')
        stmts = []
        while not self.accept('}'):
            s = self.parse_stmt()
            if s is not None:
                stmts.append(s)
        return ('block', stmts)

    def skip_macro(self):
        # name!( ... ) ;
        self.expect('(')
        depth = 1
        while depth:
            v = self.next()[1]
            depth += (v == '(') - (v == ')')
        self.accept(';')

    def parse_stmt(self):
        kind, v = self.peek()
        if v == '#':  # attribute
            self.next()
            self.expect('[')
            depth = 1
            hook = False
            while depth:
                x = self.next()[1]
                hook = hook or 'recmo_uint_verif' in x
                depth += (x == '[') - (x == ']')
            if hook:
                # `#[cfg(feature = "recmo_uint_verif")] <statement>`: the verification hooks (add-only instrumentation,
                # absent with the guard off) are not part of the translated function
                while self.peek()[1] == '#':          # further attributes of the same statement
                    self.next()
                    self.expect('[')
                    depth = 1
                    while depth:
                        x = self.next()[1]
                        depth += (x == '[') - (x == ']')
                self.parse_stmt()
            return None
        if v == 'assert_eq!':
            # `assert_eq!(a, b);`: panics unless equal
            self.next()
            self.expect('(')
            a = self.parse_expr()
            self.expect(',')
            b = self.parse_expr()
            depth = 1
            while depth:
                x = self.next()[1]
                depth += (x == '(') - (x == ')')
            self.accept(';')
            return ('assert', ('bin', '==', a, b))
        if v == 'assert!':
            # `assert!(cond[, message…]);`: a failing condition panics
            self.next()
            self.expect('(')
            c = self.parse_expr()
            depth = 1
            while depth:
                x = self.next()[1]
                depth += (x == '(') - (x == ')')
            self.accept(';')
            return ('assert', c)
        if v in ('debug_assert!', 'debug_assert_eq!', 'debug_assert_ne!', 'assume!'):
            self.next()
            self.skip_macro()
            return None
        if v in ('const', 'static'):
            self.next()
            name = self.next()[1]
            self.expect(':')
            ty = self.parse_type()
            self.expect('=')
            e = self.parse_expr()
            self.expect(';')
            return ('const', name, ty, e)
        if v == 'let':
            self.next()
            self.accept('mut')
            pat = self.parse_pat()
            ty = None
            if self.accept(':'):
                ty = self.parse_type()
            if self.accept(';'):
                return ('let', pat, ty, ('lit', 0, None))     # `let x;` — assigned later; 0 until then
            self.expect('=')
            e = self.parse_expr()
            self.expect(';')
            return ('let', pat, ty, e)
        if v == 'return':
            self.next()
            e = None if self.peek()[1] == ';' else self.parse_expr()
            self.accept(';')
            return ('return', e)
        if v == 'if':
            # an `if` in statement position ends at its closing brace (`if c { return x; } *self % *other` is two items)
            e = self.parse_expr(len(self.PREC))
            if self.accept(';'):
                return ('expr', e)
            return ('expr_nosemi', e)
        if v == 'while':
            self.next()
            if self.accept('let'):
                if self.peek()[1] == 'Some':
                    # `while let Some(x) = e { body }`: `loop { if let Some(x) = e { body } else { break } }`
                    self.next()
                    self.expect('(')
                    var = self.next()[1]
                    self.expect(')')
                    self.expect('=')
                    scrut = self.parse_expr()
                    b = self.parse_block()
                    return ('while', ('bool', True), ('block', [('expr_nosemi', ('ifsome', var, scrut, b, ('block', [('break',)])))]))
                pat = self.parse_slice_pat()
                self.expect('=')
                scrut = self.parse_expr()
                b = self.parse_block()
                return ('whilelet', pat, scrut, b)
            c = self.parse_expr()
            b = self.parse_block()
            return ('while', c, b)
        if v == 'for':
            self.next()
            pat = self.parse_pat()
            var = pat[1] if pat[0] == 'pid' else pat
            self.expect('in')
            rev = False
            # iterator over a slice: `for x in xs`, `for x in xs.iter_mut()`, `for x in xs.iter_mut().rev()`,
            # `for (x, (y, z)) in zip(&mut xs, zip(ys, zs))`
            save = self.i
            if self.peek()[1] == '&':
                it = self.parse_unary()                    # `for x in &mut xs` / `&mut self.limbs`
                b = self.parse_block()
                return ('foreach', var, it, b)
            if self.peek()[0] == 'id' and (self.peek(1)[1] in ('{', '.') or (self.peek()[1] == 'zip' and self.peek(1)[1] == '(')):
                it = self.parse_postfix()
                if self.peek()[1] == '{':
                    b = self.parse_block()
                    return ('foreach', var, it, b)
                self.i = save
            paren = self.accept('(')
            lo = self.parse_expr(len(self.PREC) - 2)     # up to additive: `..` is not an operator here
            if paren and self.accept(')'):                # `(i + 1)..n`: the parenthesis was around the lower bound only
                paren = False
            if self.accept('..='):
                # `lo..=hi`: the bound is `hi + 1` (in `usize`; the sources' bounds are limb counts, far from `usize::MAX`)
                hi = ('bin', '+', self.parse_expr(len(self.PREC) - 2), ('lit', 1, 'usize'))
            else:
                self.expect('..')
                hi = self.parse_expr(len(self.PREC) - 2)
            if paren:
                self.expect(')')
                self.expect('.')
                if self.next()[1] != 'rev':
                    raise TranslateError('unsupported iterator adaptor')
                self.expect('(')
                self.expect(')')
                rev = True
            b = self.parse_block()
            return ('for', var, lo, hi, rev, b)
        if v == 'loop':
            self.next()
            b = self.parse_block()
            return ('while', ('bool', True), b)
        if v in ('break', 'continue'):
            self.next()
            if v == 'break' and self.peek()[1] not in (';', '}', ','):
                e = self.parse_expr()
                self.accept(';')
                return ('breakval', e)          # `break value` of a `loop` in tail position (see desugar)
            self.accept(';')
            return (v,)
        e = self.parse_expr()
        if self.peek()[1] in ('=', '+=', '-=', '*=', '/=', '%=', '&=', '|=', '^=', '<<=', '>>='):
            op = self.next()[1]
            rhs = self.parse_expr()
            self.expect(';')
            if op != '=':
                rhs = ('bin', op[:-1], e, rhs)
            return ('assign', e, rhs)
        if self.accept(';'):
            return ('expr', e)
        return ('tail', e)

    def parse_pat(self):
        self.accept('&')
        if self.accept('('):
            ps = []
            while not self.accept(')'):
                self.accept('mut')
                ps.append(self.parse_pat())
                self.accept(',')
            return ('ptuple', ps)
        self.accept('mut')
        return ('pid', self.next()[1])

    def parse_slice_pat(self):
        """slice patterns `[0, rest @ ..]`, `[_, rest @ ..]`, `[rest @ .., 0]`: -> ('front'|'back', element test, rest name)
        where the element test is ('lit', k) or ('wild',)"""
        self.expect('[')
        elems = []
        while not self.accept(']'):
            kind, v = self.next()
            if kind == 'num':
                elems.append(('lit', int(v.replace('_', ''), 0)))
            elif v == '_':
                elems.append(('wild',))
            elif kind == 'id':
                self.expect('@')
                self.expect('..')
                elems.append(('rest', v))
            else:
                raise TranslateError('unsupported slice pattern element %r' % (v,))
            self.accept(',')
        if len(elems) == 2 and elems[1][0] == 'rest' and elems[0][0] in ('lit', 'wild'):
            return ('front', elems[0], elems[1][1])
        if len(elems) == 2 and elems[0][0] == 'rest' and elems[1][0] in ('lit', 'wild'):
            return ('back', elems[1], elems[0][1])
        raise TranslateError('unsupported slice pattern')

    def parse_match_pat(self):
        """patterns of `match` arms: `_`, a binding, a literal (`0`, `true`), tuples of these, constructor patterns
        (`Ok(p)`, `Err(p)`, `Some(p)`, `None`, `Enum::Variant(p, ..)`) and alternatives `p | q`"""
        p = self.parse_match_pat1()
        if self.peek()[1] == '|':
            alts = [p]
            while self.accept('|'):
                alts.append(self.parse_match_pat1())
            return ('mor', alts)
        return p

    def parse_match_pat1(self):
        if self.peek()[1] == '..':
            self.next()
            return ('mrest',)
        if self.peek()[1] == '[':
            # slice pattern `[a, 0, rest @ .., z]`: elements are literals, `_`, bindings, `..` or `name @ ..`
            self.next()
            elems = []
            while not self.accept(']'):
                if self.peek()[0] == 'id' and self.peek(1)[1] == '@':
                    nm = self.next()[1]
                    self.next()
                    self.expect('..')
                    elems.append(('mrestbind', nm))
                else:
                    elems.append(self.parse_match_pat())
                self.accept(',')
            return ('mslice', elems)
        if self.peek()[0] == 'id' and (self.peek(1)[1] in ('(', '::') or self.peek()[1] == 'None'):
            path = [self.next()[1]]
            while self.accept('::'):
                path.append(self.next()[1])
            subs = []
            if self.accept('('):
                while not self.accept(')'):
                    subs.append(self.parse_match_pat())
                    self.accept(',')
            return ('mctor', path, subs)
        if self.accept('('):
            ps = []
            while not self.accept(')'):
                ps.append(self.parse_match_pat())
                self.accept(',')
            return ('mtuple', ps)
        kind, v = self.next()
        if kind == 'str' and v.startswith("'"):
            lo = char_code(v)
            if self.accept('..='):
                k2, v2 = self.next()
                if not (k2 == 'str' and v2.startswith("'")):
                    raise TranslateError('unsupported range pattern')
                return ('mrange', lo, char_code(v2))
            return ('mlit', lo)
        if kind == 'str':
            return ('mstr', v)
        if v == '-' and self.peek()[0] == 'num':
            return ('mlit', -int(self.next()[1].replace('_', ''), 0))
        if v == '_':
            return ('mwild',)
        if v in ('true', 'false'):
            return ('mbool', v == 'true')
        if kind == 'num':
            return ('mlit', int(v.replace('_', ''), 0))
        if kind == 'id':
            return ('mbind', v)
        raise TranslateError('unsupported match pattern %r' % (v,))

    # expressions (precedence climbing) ---------------------------------------------------------
    PREC = [['||'], ['&&'], ['==', '!=', '<', '>', '<=', '>='], ['|'], ['^'], ['&'], ['<<', '>>'], ['+', '-'],
            ['*', '/', '%']]

    def parse_expr(self, level=0):
        if level == len(self.PREC):
            return self.parse_cast()
        lhs = self.parse_expr(level + 1)
        while self.peek()[1] in self.PREC[level]:
            op = self.next()[1]
            rhs = self.parse_expr(level + 1)
            lhs = ('bin', op, lhs, rhs)
        return lhs

    def parse_cast(self):
        e = self.parse_unary()
        while self.accept('as'):
            e = ('cast', e, self.parse_type())
        return e

    def parse_unary(self):
        v = self.peek()[1]
        if v in ('!', '-'):
            self.next()
            return ('un', v, self.parse_unary())
        if v in ('*', '&'):
            self.next()
            if v == '&' and self.accept('mut'):
                return ('refmut', self.parse_unary())    # kept: a call may update the referent
            self.accept('mut')
            return self.parse_unary()
        return self.parse_postfix()

    def parse_postfix(self):
        e = self.parse_primary()
        while True:
            if self.accept('.'):
                kind, v = self.next()
                if kind == 'num':
                    e = ('field', e, int(v))
                elif self.accept('('):
                    args = self.parse_args()
                    e = ('mcall', e, v, args)
                else:
                    e = ('fieldname', e, v)
            elif self.accept('['):
                one = ('lit', 1, 'usize')
                if self.accept('..'):
                    idx = ('rangeto', self.parse_expr())      # `xs[..n]`
                elif self.accept('..='):
                    idx = ('rangeto', ('bin', '+', self.parse_expr(), one))      # `xs[..=n]`
                else:
                    idx = self.parse_expr(len(self.PREC) - 2)
                    if self.accept('..='):
                        idx = ('range', idx, ('bin', '+', self.parse_expr(len(self.PREC) - 2), one))
                    elif self.accept('..'):
                        if self.peek()[1] == ']':
                            idx = ('rangefrom', idx)               # `xs[k..]`
                        else:
                            idx = ('range', idx, self.parse_expr(len(self.PREC) - 2))      # `xs[a..b]`
                self.expect(']')
                e = ('index', e, idx)
            elif self.peek()[1] == '(' and e[0] in ('path',):
                self.next()
                e = ('call', e[1], self.parse_args())
            elif self.accept('?'):
                e = ('try', e)
            else:
                return e

    def parse_args(self):
        args = []
        while not self.accept(')'):
            a = self.parse_expr(len(self.PREC) - 2) if self.peek()[0] == 'id' and self.peek(1)[1] == '..' else self.parse_expr()
            if self.accept('..'):
                a = ('rangefrom', a)                  # `xs.copy_within(n.., 0)`
            args.append(a)
            self.accept(',')
        return args

    def parse_primary(self):
        kind, v = self.next()
        if kind == 'str' and v.startswith("'"):
            return ('lit', char_code(v), 'char')            # a `char` is its code point
        if kind == 'str':
            return ('str', v)
        if kind == 'flt':
            # an `f64` literal: its IEEE-754 binary64 bit pattern (computed here; floats are bit patterns in the translation)
            import struct
            body = re.sub(r'_?f(32|64)$', '', v).replace('_', '')
            return ('lit', struct.unpack('>Q', struct.pack('>d', float(body)))[0], 'f64')
        if kind == 'num':
            m = re.match(r'^(0x[0-9a-fA-F_]*?|0b[01_]*?|0o[0-7_]*?|[0-9][0-9_]*?)_?((?:[ui](?:8|16|32|64|128|size)))?$', v)
            body, suf = m.group(1), m.group(2)
            return ('lit', int(body.replace('_', ''), 0), suf)
        if v == '(':
            es = []
            trailing = False
            while not self.accept(')'):
                es.append(self.parse_expr())
                trailing = self.accept(',')
            if len(es) == 1 and not trailing:
                return es[0]
            return ('tuple', es)
        if v == '[':
            es = []
            while not self.accept(']'):
                es.append(self.parse_expr())
                if self.accept(';'):
                    n = self.parse_expr()
                    self.expect(']')
                    return ('repeat', es[0], n)
                self.accept(',')
            return ('array', es)
        if v == 'if' and self.peek()[1] == 'let' and self.peek(1)[1] == 'Some':
            self.next()
            self.next()
            self.expect('(')
            var = self.next()[1]
            self.expect(')')
            self.expect('=')
            scrut = self.parse_expr()
            a = self.parse_block()
            b = self.parse_block() if self.accept('else') else None
            return ('ifsome', var, scrut, a, b)
        if v == 'if' and self.peek()[1] == 'let':
            self.next()
            pat = self.parse_slice_pat()
            self.expect('=')
            scrut = self.parse_expr()
            a = self.parse_block()
            b = self.parse_block() if self.accept('else') else None
            return ('iflet', pat, scrut, a, b)
        if v == 'if':
            c = self.parse_expr()
            a = self.parse_block()
            b = None
            if self.accept('else'):
                if self.peek()[1] == 'if':
                    self.next()
                    self.i -= 1
                    b = ('block', [('tail', self.parse_primary())])
                else:
                    b = self.parse_block()
            return ('if', c, a, b)
        if v == '||':
            return ('closure', [], self.parse_expr())       # closure without parameters
        if v == '|':
            # closure `|x| body` / `|&x| body`
            params = []
            while not self.accept('|'):
                self.accept('&')
                self.accept('mut')
                params.append(self.next()[1])
                self.accept(',')
            body = self.parse_expr()
            return ('closure', params, body)
        if v == 'match':
            scrut = self.parse_expr()
            self.expect('{')
            arms = []
            while not self.accept('}'):
                pat = self.parse_match_pat()
                if self.accept('if'):
                    pat = ('mguard', pat, self.parse_expr())          # `pat if guard => …`
                self.expect('=>')
                if self.peek()[1] in ('return', 'break', 'continue'):
                    st = self.parse_stmt()                  # `pat => return e,`
                    body = ('block', [st])
                else:
                    body = self.parse_expr()
                    if self.peek()[1] in ('=', '+=', '-=', '*=', '/=', '%=', '&=', '|=', '^=', '<<=', '>>='):
                        op = self.next()[1]                 # `pat => place = value,`
                        rhs = self.parse_expr()
                        if op != '=':
                            rhs = ('bin', op[:-1], body, rhs)
                        body = ('block', [('assign', body, rhs)])
                self.accept(',')
                arms.append((pat, body))
            return ('match', scrut, arms)
        if v == 'unsafe':
            return self.parse_block()
        if v == '{':
            self.i -= 1
            return self.parse_block()
        if v in ('true', 'false'):
            return ('bool', v == 'true')
        if v == 'vec!' and self.accept('['):
            es = []
            while not self.accept(']'):
                es.append(self.parse_expr())
                self.accept(',')
            return ('veclit', es)
        if v in ('panic!', 'unreachable!', 'todo!'):
            self.expect('(')
            depth = 1
            while depth:
                x = self.next()[1]
                depth += (x == '(') - (x == ')')
            return ('panic',)
        if v == 'Self' and self.peek()[1] == '{' and self.peek(1)[1] == 'limbs' and self.peek(2)[1] == '}':
            # `Self { limbs }`: the Uint whose limb array is the variable `limbs`
            self.next(); self.next(); self.next()
            return ('uintlit', ('path', ['limbs']))
        if v == '<' and self.peek()[1] == 'Self' and self.peek(1)[1] == '>' and self.peek(2)[1] == '::':
            # `<Self>::f(..)`: the inherent function of `Self` (qualified so that the trait method of the same name is not meant)
            self.next(); self.next()
            kind, v = 'id', 'Self'
        if kind == 'id':
            path = [v]
            while self.peek()[1] == '::':
                self.next()
                if self.accept('<'):  # turbofish: skip
                    depth = 1
                    while depth:
                        x = self.next()[1]
                        depth += (x == '<') - (x == '>')
                    continue
                path.append(self.next()[1])
            return ('path', path)
        raise TranslateError('unexpected token %r' % v)


# ------------------------------------------------------------------------------------------------
# typing + emission

def lean_ident(n):
    return {'end': 'end_', 'at': 'at_', 'from': 'from_', 'then': 'then_', 'do': 'do_', 'fun': 'fun_', 'show': 'show_',
            'have': 'have_', 'type': 'type_', 'open': 'open_', 'in': 'in_', 'prefix': 'prefix_', 'infix': 'infix_',
            'postfix': 'postfix_', 'notation': 'notation_', 'macro': 'macro_', 'syntax': 'syntax_', 'instance': 'instance_',
            'theorem': 'theorem_', 'def': 'def_', 'where': 'where_', 'with': 'with_', 'by': 'by_', 'from_': 'from__'}.get(n, n)


class Emitter:
    def __init__(self, fns, self_ty=None, structs=None, gconsts=None, self_name=None):
        self.fns = fns          # name -> (lean name, param types, ret type[, needs fuel])
        self.structs = structs or {}      # struct name -> tuple type
        self.gconsts = gconsts or {}      # 'Type::CONST' -> (lean term, type)
        self.self_name = self_name
        self.self_ty = self.structs.get(self_ty, self_ty) if isinstance(self_ty, str) else self_ty
        self.consts = {}        # local const name -> (lean term, type)

    def ty(self, t):
        if t == 'Self':
            return self.self_ty
        if isinstance(t, str) and t in getattr(self, 'typarams', ()):
            tt = getattr(self, 'typarams_ty', None)
            if isinstance(tt, dict):
                return tt.get(t, 'slice')
            return tt or 'slice'
        if isinstance(t, tuple) and t and t[0] == 'assoc':
            if t[1] not in getattr(self, 'assoc', {}):
                raise TranslateError('associated type %s is not declared uniquely in the file' % t[1])
            return self.ty(self.assoc[t[1]])
        if isinstance(t, tuple) and t and t[0] == 'generic' and t[1] == 'Vec' and len(t[2]) == 1 and self.ty(t[2][0]) == 'u64':
            return 'slice'                        # `Vec<u64>`: an owned list of words
        if isinstance(t, tuple) and t and t[0] == 'generic' and t[1] in getattr(self, 'enums', {}):
            return ('enum', t[1], [self.ty(a) for a in t[2]])
        if isinstance(t, str) and t in getattr(self, 'enums', {}):
            return ('enum', t, [])
        if isinstance(t, tuple) and t and t[0] == 'result':
            return ('result', self.ty(t[1]), self.ty(t[2]))
        if isinstance(t, tuple) and t and t[0] == 'option':
            return ('option', self.ty(t[1]))
        if isinstance(t, str) and t in getattr(self, 'structs', {}):
            return self.structs[t]
        return t

    def w(self, t):
        t = self.ty(t)
        if t not in WIDTH:
            raise TranslateError('no width for type %r' % (t,))
        return WIDTH[t]

    # expression -> (lean string, type). `exp` is the expected type for untyped literals.
    def expr(self, e, env, exp=None):
        k = e[0]
        if k == 'lit':
            t = e[2] or exp or 'u64'
            return str(e[1]), t
        if k == 'bool':
            return ('true' if e[1] else 'false'), 'bool'
        if k == 'raw':
            return e[1], e[2]                 # a Lean term produced by the translator itself (pattern tests / projections)
        if k == 'path':
            p = e[1]
            if len(p) == 1:
                n = p[0]
                if n in env:
                    return lean_ident(n), env[n]
                if getattr(self, 'uint_mode', False) and n in ('BITS', 'LIMBS'):
                    return n, 'usize'
                if n in getattr(self, 'const_generics', []):
                    return n, 'usize'
                if n in self.consts:
                    return self.consts[n]
                if n == 'None':
                    return 'none', (exp if isinstance(exp, tuple) and exp[0] == 'option' else ('option', None))
                raise TranslateError('unknown variable %s' % n)
            if len(p) == 2 and getattr(self, 'uint_mode', False) == 'value' and p[0] in ('Self', 'Uint'):
                vm = {'LIMBS': ('LIMBS', 'usize'), 'BITS': ('BITS', 'usize'), 'ZERO': ('0', 'uint'),
                      'ONE': ('(1 % 2 ^ BITS)', 'uint'), 'MAX': ('(2 ^ BITS - 1)', 'uint'), 'MIN': ('0', 'uint')}
                if p[1] in vm:
                    return vm[p[1]]
                raise TranslateError('unsupported Self::%s in value mode' % p[1])
            if len(p) == 2 and p[0] == 'Self' and isinstance(self.self_ty, str) and self.self_ty in WIDTH \
                    and p[1] in ('MAX', 'MIN', 'BITS'):
                return self.expr(('path', [self.self_ty, p[1]]), env, exp)      # `Self` is a primitive integer type here
            if len(p) == 2 and getattr(self, 'uint_mode', False) and p[0] == 'Self':
                um = {'LIMBS': ('LIMBS', 'usize'), 'BITS': ('BITS', 'usize'), 'MASK': ('(mask BITS)', 'u64'),
                      'ZERO': ('(List.replicate LIMBS 0)', 'uint'),
                      # `ONE = const_from_u64(1)`: the limbs of 1 (of 0 when BITS = 0)
                      'ONE': ('(Ruint.toLimbs LIMBS (1 % 2 ^ BITS))', 'uint'),
                      # `MAX = from_limbs_unmasked([u64::MAX; LIMBS]).masked()` (src/lib.rs)
                      'MAX': ('(uint_masked BITS LIMBS (List.replicate LIMBS (2 ^ 64 - 1)))', 'uint'),
                      'SHOULD_MASK': ('(decide (BITS > 0) && ((mask BITS) != (2 ^ 64 - 1)))', 'bool'),
                      # `BYTES = nbytes(BITS)` (src/bytes.rs); `nbytes` is generated from the source
                      'BYTES': ('(nbytes BITS)', 'usize')}
                if p[1] in um:
                    return um[p[1]]
            if len(p) == 2 and p[0] in getattr(self, 'enums', {}):
                return self.enum_value(p, [], env, exp)
            if len(p) == 2 and p[0] == 'Ordering' and p[1] in ('Less', 'Equal', 'Greater'):
                return {'Less': 'Ordering.lt', 'Equal': 'Ordering.eq', 'Greater': 'Ordering.gt'}[p[1]], 'Ordering'
            if len(p) == 2:
                key = '%s::%s' % (self.self_name if p[0] == 'Self' and self.self_name else p[0], p[1])
                if key in getattr(self, 'gconsts', {}):
                    return self.gconsts[key]
            if len(p) == 2 and isinstance(self.ty(p[0]), str) and p[1] in ('MAX', 'MIN', 'BITS') and self.ty(p[0]) in WIDTH:
                t = self.ty(p[0])
                if t in SIGNED:
                    return {'MAX': '(2 ^ %d - 1)' % (WIDTH[t] - 1), 'MIN': '(2 ^ %d)' % (WIDTH[t] - 1), 'BITS': str(WIDTH[t])}[p[1]], \
                        (t if p[1] != 'BITS' else 'u32')
                return {'MAX': '(2 ^ %d - 1)' % WIDTH[t], 'MIN': '0', 'BITS': str(WIDTH[t])}[p[1]], (t if p[1] != 'BITS' else 'u32')
            raise TranslateError('unsupported path %s' % '::'.join(p))
        if k == 'tuple':
            parts = [self.expr(x, env, (exp[1][i] if exp and exp[0] == 'tuple' else None)) for i, x in enumerate(e[1])]
            return '(' + ', '.join(p[0] for p in parts) + ')', ('tuple', [p[1] for p in parts])
        if k == 'cast':
            s, t = self.expr(e[1], env)
            tt = self.ty(e[2])
            if tt == 'f64' and t == 'f32':
                return '(Ruint.Float.f32ToF64 %s)' % s, tt          # exact widening
            if tt in ('f64', 'f32'):
                if t not in ('u64', 'u32', 'u16', 'u8', 'usize', 'u128'):
                    raise TranslateError('cast of a %r to %s' % (t, tt))
                # `n as f64` for an unsigned integer: the nearest float, ties to even (`Ruint.Float.ofNat`)
                return '(Ruint.Float.ofNat %s %s)' % (FFMT[tt], s), tt
            if t == 'bool':
                return '(%s).toNat' % s, tt
            if isinstance(t, str) and t in SIGNED and self.w(tt) > self.w(t):
                # widening a signed integer sign-extends its two's-complement pattern
                return '(if decide (2 ^ %d ≤ %s) then %s + (2 ^ %d - 2 ^ %d) else %s)' % (
                    self.w(t) - 1, s, s, self.w(tt), self.w(t), s), tt
            if self.w(tt) >= self.w(t):
                return s, tt
            return '(%s %% 2 ^ %d)' % (s, self.w(tt)), tt
        if k == 'un':
            if e[1] == '!':
                s, t = self.expr(e[2], env, exp)
                if t == 'bool':
                    return '(!%s)' % s, 'bool'
                return '(2 ^ %d - 1 - %s)' % (self.w(t), s), t
            s, t = self.expr(e[2], env, exp)
            return '(Rs.wneg %d %s)' % (self.w(t), s), t
        if k == 'bin':
            return self.binop(e, env, exp)
        if k == 'field':
            s, t = self.expr(e[1], env)
            if t and t[0] == 'tuple':
                n = len(t[1])
                i = e[2]
                acc = s
                # nested pairs: (a, (b, c))
                proj = '.2' * i + ('.1' if i < n - 1 else '')
                return '(%s)%s' % (acc, proj), t[1][i]
            # Wrapping(x).0
            return s, t
        if k == 'call':
            return self.call(e, env, exp)
        if k == 'mcall':
            return self.mcall(e, env, exp)
        if k == 'fieldname':
            s, t = self.expr(e[1], env)
            if e[2] == 'limbs' and t == 'uint':
                return s, 'uint'
            raise TranslateError('unsupported field .%s' % e[2])
        if k == 'index' and e[2][0] == 'rangefrom':
            s_, t_ = self.expr(e[1], env)
            if t_ not in ('slice', 'mutslice', 'uint') and not (isinstance(t_, tuple) and t_[0] == 'array'):
                raise TranslateError('suffix slicing of a non-slice')
            n_, _ = self.expr(e[2][1], env, 'usize')
            return '(%s.drop %s)' % (s_, n_), 'slice'       # `&xs[k..]` panics for k > len; callers pass k ≤ len
        if k == 'index' and e[2][0] == 'range':
            s_, t_ = self.expr(e[1], env)
            if t_ not in ('slice', 'mutslice') and not (isinstance(t_, tuple) and t_[0] == 'array'):
                raise TranslateError('slicing of a non-slice')
            lo_, _ = self.expr(e[2][1], env, 'usize')
            hi_, _ = self.expr(e[2][2], env, 'usize')
            return '((%s.drop %s).take (%s - %s))' % (s_, lo_, hi_, lo_), 'slice'   # `&xs[a..b]` panics unless a ≤ b ≤ len
        if k == 'isok':
            sx, _ = self.expr(e[1], env)
            return '(Rs.isOk %s)' % sx, 'bool'
        if k in ('okget', 'errget'):
            sx, tx = self.expr(e[1], env)
            if not (isinstance(tx, tuple) and tx[0] == 'result'):
                raise TranslateError('Ok / Err pattern against a non-Result')
            if k == 'okget':
                return '(Rs.okD %s %s)' % (self.default_of(tx[1]), sx), tx[1]
            return '(Rs.errD %s %s)' % (self.default_of(tx[2]), sx), tx[2]
        if k == 'issome':
            sx, _ = self.expr(e[1], env)
            return '((%s).isSome)' % sx, 'bool'
        if k == 'getsome':
            sx, tx = self.expr(e[1], env)
            return '((%s).getD %s)' % (sx, self.default_of(tx[1])), tx[1]
        if k == 'panic':
            # `unreachable!()` / `panic!()` in VALUE position (a match arm inside an expression): the arm's value is the default
            # of its type; the tie theorems show such an arm is not taken on their domain (the hand models return `panic` there)
            if exp is None:
                raise TranslateError('panic in value position without a known type')
            return self.default_of(exp), exp
        if k == 'uintlit':
            sx, tx = self.expr(e[1], env)
            if getattr(self, 'uint_mode', False) is not True:
                raise TranslateError('Uint struct literal outside limb mode')
            return sx, 'uint'
        if k == 'getd':
            s_, t_ = self.expr(e[1], env)
            i_, _ = self.expr(e[2], env, 'usize')
            return '(%s.getD %s 0)' % (s_, i_), 'u64'
        if k == 'index' and e[2][0] == 'rangeto':
            s, t = self.expr(e[1], env)
            if t not in ('slice', 'mutslice') and not (isinstance(t, tuple) and t[0] == 'array'):
                raise TranslateError('prefix slicing of a non-slice')
            n, _ = self.expr(e[2][1], env, 'usize')
            return '(%s.take %s)' % (s, n), 'slice'        # `&xs[..n]` panics for n > len; callers pass n ≤ len
        if k == 'index':
            s, t = self.expr(e[1], env)
            i, _ = self.expr(e[2], env, 'usize')
            if t == 'uint' and getattr(self, 'uint_mode', False) == 'value':
                if i != '0':
                    raise TranslateError('limb access other than limbs[0] in value mode')
                return '(%s %% 2 ^ 64)' % s, 'u64'
            if t in ('uint', 'slice', 'mutslice'):
                return '(%s.getD %s 0)' % (s, i), 'u64'
            if t[0] != 'array':
                raise TranslateError('index into non-array')
            return '(%s.getD %s 0)' % (s, i), t[1]
        if k == 'refmut':
            return self.expr(e[1], env, exp)
        if k == 'drop':
            sx, tx = self.expr(e[1], env)
            sn, _ = self.expr(e[2], env, 'usize')
            return '(%s.drop %s)' % (sx, sn), ('slice' if tx in ('slice', 'mutslice') else tx)
        if k == 'droplast':
            sx, tx = self.expr(e[1], env)
            return '(%s.dropLast)' % sx, ('slice' if tx in ('slice', 'mutslice') else tx)
        if k == 'concat':
            sx, tx = self.expr(e[1], env)
            sy, _ = self.expr(e[2], env)
            return '(%s ++ %s)' % (sx, sy), ('slice' if tx in ('slice', 'mutslice') else tx)
        if k == 'headis':
            sx, _ = self.expr(e[1], env)
            return ('(%s.head? == some %d)' % (sx, e[2][1]) if e[2][0] == 'lit' else '(!(%s).isEmpty)' % sx), 'bool'
        if k == 'lastis':
            sx, _ = self.expr(e[1], env)
            return ('(%s.getLast? == some %d)' % (sx, e[2][1]) if e[2][0] == 'lit' else '(!(%s).isEmpty)' % sx), 'bool'
        if k == 'nil':
            return '([] : List Nat)', 'slice'
        if k == 'veclit':
            return '([%s] : List Nat)' % ', '.join(self.expr(x, env, 'u64')[0] for x in e[1]), 'slice'
        if k == 'match':
            return self.match_expr(e, env, exp)
        if k == 'if':
            return self.if_expr(e, env, exp)
        if k == 'block':
            sb, tb = self.block(e, env, exp)
            return '(%s)' % sb, tb
        if k == 'minlen':
            sa, _ = self.expr(e[1], env, 'usize')
            sb, _ = self.expr(e[2], env, 'usize')
            return '(min %s %s)' % (sa, sb), 'usize'
        if k == 'repeat':
            se, te = self.expr(e[1], env, 'u64')
            sn, _ = self.expr(e[2], env, 'usize')
            return '(List.replicate %s %s)' % (sn, se), ('array', te, None)
        if k == 'array':
            parts = [self.expr(x, env, exp[1] if exp and exp[0] == 'array' else None) for x in e[1]]
            return '[' + ', '.join(p[0] for p in parts) + ']', ('array', parts[0][1] if parts else 'u64', len(parts))
        raise TranslateError('unsupported expression %r' % (e[0],))

    def default_of(self, t):
        """a default term of the Lean type of `t` (used where a projection is guarded by its test)"""
        if t in ('uint', 'slice', 'mutslice', 'uintlist') or (isinstance(t, tuple) and t and t[0] == 'array'):
            return '[]' if not (t == 'uint' and getattr(self, 'uint_mode', False) == 'value') else '0'
        if t == 'bool':
            return 'false'
        if isinstance(t, tuple) and t and t[0] == 'enum':
            return '(' + ', '.join(['0'] + [self.default_of(x) for x in self.enum_slots(t)]) + ')'
        if isinstance(t, tuple) and t and t[0] == 'tuple':
            return '(' + ', '.join(self.default_of(x) for x in t[1]) + ')'
        if isinstance(t, tuple) and t and t[0] == 'option':
            return 'none'
        return '0'

    def pat_walk(self, pat, term, ty, conds, binds):
        if pat[0] == 'mwild':
            return
        if pat[0] == 'mbind':
            binds.append((pat[1], term, ty))
            return
        if pat[0] == 'mbool':
            conds.append(term if pat[1] else '(!%s)' % term)
            return
        if pat[0] == 'mlit':
            v = pat[1]
            if v < 0:
                v += 2 ** self.w(ty)           # two's complement at the scrutinee's width
            conds.append('(%s == %d)' % (term, v))
            return
        if pat[0] == 'mstr':
            body = pat[1][1:-1]
            if '\\' in body:
                raise TranslateError('escape in a string pattern')
            conds.append('(%s == [%s])' % (term, ', '.join(str(ord(ch)) for ch in body)))
            return
        if pat[0] == 'mrange':
            conds.append('(decide (%d ≤ %s) && decide (%s ≤ %d))' % (pat[1], term, term, pat[2]))
            return
        if pat[0] == 'mctor' and ty == 'Ordering' and pat[1][0] == 'Ordering' and not pat[2]:
            conds.append('(%s == Ordering.%s)' % (term, {'Less': 'lt', 'Equal': 'eq', 'Greater': 'gt'}[pat[1][1]]))
            return
        if pat[0] == 'mctor':
            name = pat[1][-1]
            if isinstance(ty, tuple) and ty[0] == 'result' and name in ('Ok', 'Err') and len(pat[2]) == 1:
                if name == 'Ok':
                    conds.append('(Rs.isOk %s)' % term)
                    self.pat_walk(pat[2][0], '(Rs.okD %s %s)' % (self.default_of(ty[1]), term), ty[1], conds, binds)
                else:
                    conds.append('(!(Rs.isOk %s))' % term)
                    self.pat_walk(pat[2][0], '(Rs.errD %s %s)' % (self.default_of(ty[2]), term), ty[2], conds, binds)
                return
            if isinstance(ty, tuple) and ty[0] == 'option' and name in ('Some', 'None'):
                if name == 'None':
                    conds.append('((%s).isNone)' % term)
                else:
                    conds.append('((%s).isSome)' % term)
                    self.pat_walk(pat[2][0], '((%s).getD %s)' % (term, self.default_of(ty[1])), ty[1], conds, binds)
                return
            if isinstance(ty, tuple) and ty[0] == 'enum' and len(pat[1]) == 2 and (pat[1][0] == ty[1] or pat[1][0] == 'Self'):
                variants = self.enums[ty[1]]
                idx = [v for v, _ in variants].index(name)
                conds.append('((%s).1 == %d)' % (term, idx))
                slots = self.enum_slots(ty)
                subs = pat[2]
                if subs and subs[-1] == ('mrest',):
                    subs = subs[:-1]
                for i, q in enumerate(subs):
                    proj = '.2' * (i + 1) + ('.1' if i < len(slots) - 1 else '')
                    self.pat_walk(q, '(%s)%s' % (term, proj), slots[i], conds, binds)
                return
            raise TranslateError('constructor pattern %s against %r' % ('::'.join(pat[1]), ty))
        if pat[0] == 'mslice':
            if ty not in ('slice', 'mutslice'):
                raise TranslateError('slice pattern against %r' % (ty,))
            elems = pat[1]
            ri = [i for i, q in enumerate(elems) if q[0] in ('mrest', 'mrestbind')]
            if len(ri) > 1:
                raise TranslateError('two rest patterns in a slice pattern')
            nfix = len(elems) - len(ri)
            if ri:
                conds.append('(decide (%d ≤ (%s).length))' % (nfix, term))
            else:
                conds.append('((%s).length == %d)' % (term, nfix))
            pre = elems[:ri[0]] if ri else elems
            suf = elems[ri[0] + 1:] if ri else []
            for i, q in enumerate(pre):
                self.pat_walk(q, '((%s).getD %d 0)' % (term, i), 'u8' if getattr(self, 'slice_elem', None) is None else self.slice_elem, conds, binds)
            for j, q in enumerate(suf):
                self.pat_walk(q, '((%s).getD ((%s).length - %d) 0)' % (term, term, len(suf) - j), 'u8', conds, binds)
            if ri and elems[ri[0]][0] == 'mrestbind':
                binds.append((elems[ri[0]][1], '(((%s).drop %d).take ((%s).length - %d))' % (term, len(pre), term, nfix), 'slice'))
            return
        if pat[0] == 'mguard':
            c2, b2 = [], []
            self.pat_walk(pat[1], term, ty, c2, b2)
            env2 = dict(getattr(self, 'cur_env', {}))
            lets = ''
            for n, t_, ty_ in b2:
                env2[n] = ty_
                lets += 'let %s := %s; ' % (lean_ident(n), t_)
            sg, _ = self.expr(pat[2], env2, 'bool')
            conds.extend(c2)
            conds.append('(%s%s)' % (lets, sg))
            binds.extend(b2)
            return
        if pat[0] == 'mor':
            # alternatives: the arm is taken when one matches; bindings come from the first alternative that does
            allb = []
            cs = []
            for alt in pat[1]:
                c2, b2 = [], []
                self.pat_walk(alt, term, ty, c2, b2)
                cs.append('(' + (' && '.join(c2) if c2 else 'true') + ')')
                allb.append(b2)
            conds.append('(' + ' || '.join(cs) + ')')
            names = [n for n, _, _ in allb[0]]
            if any([n for n, _, _ in b] != names for b in allb):
                raise TranslateError('alternatives bind different names')
            for k_, n in enumerate(names):
                t_ = allb[-1][k_][1]
                for j in range(len(allb) - 2, -1, -1):
                    t_ = '(if %s then %s else %s)' % (cs[j], allb[j][k_][1], t_)
                binds.append((n, t_, allb[0][k_][2]))
            return
        if pat[0] == 'mrest':
            return
        if pat[0] == 'mtuple':
            if not (isinstance(ty, tuple) and ty[0] == 'tuple' and len(ty[1]) == len(pat[1])):
                raise TranslateError('tuple pattern against %r' % (ty,))
            n = len(pat[1])
            for i, q in enumerate(pat[1]):
                self.pat_walk(q, term + '.2' * i + ('.1' if i < n - 1 else ''), ty[1][i], conds, binds)
            return
        raise TranslateError('unsupported pattern')

    def match_ret(self, e, env, result):
        """a `match` in return position with `panic!` arms: every other arm returns its value, a panic arm panics"""
        return self.match_expr(e, env, self.inner_rt, ret=(result,))

    def match_expr(self, e, env, exp, ret=None):
        """`match scrutinee { pat => expr, … }` over tuples of bools / integers / bindings: the scrutinee is bound to a
        temporary, each arm becomes `if <its literal tests> then <body with its bindings>`, in order; the last arm is the
        final `else` (Rust has checked that the arms are exhaustive)."""
        _, scrut, arms = e
        ss, ts = self.expr(scrut, env, None)
        self.tmp = getattr(self, 'tmp', 0) + 1
        t = 'sel%d' % self.tmp

        walk = self.pat_walk
        out = None
        rt = None
        for k, (pat, body) in reversed(list(enumerate(arms))):
            conds, binds = [], []
            walk(pat, t, ts, conds, binds)
            env2 = dict(env)
            lets = ''
            for n, term, ty in binds:
                env2[n] = ty
                lets += 'let %s := %s\n  ' % (lean_ident(n), term)
            if ret is not None and body == ('panic',):
                sb, tb = self.panic_value(ret[0], env2), None
            else:
                sb, tb = self.expr(body, env2, exp or rt)
                if ret is not None:
                    sb = self.wrap_ret(sb, env2)
            if tb is not None and not (isinstance(tb, tuple) and tb[0] == 'option' and tb[1] is None):
                rt = tb
            arm = '(%s%s)' % (lets, sb)
            if out is None:
                out = arm                      # last arm: the final else
            else:
                if not conds:
                    raise TranslateError('irrefutable match arm before the last one')
                out = '(if (%s) then %s\n  else %s)' % (' && '.join(conds), arm, out)
        return '(let %s := %s\n  %s)' % (t, ss, out), rt

    def binop(self, e, env, exp):
        _, op, a, b = e
        if op in ('&&', '||'):
            sa, _ = self.expr(a, env, 'bool')
            sb, _ = self.expr(b, env, 'bool')
            return '(%s %s %s)' % (sa, op, sb), 'bool'
        if op in ('<<', '>>'):
            sa, ta = self.expr(a, env, exp)
            sb, _ = self.expr(b, env, 'u32')
            if ta == 'uint' and getattr(self, 'uint_mode', False) != 'value':
                sb0, tb0 = self.expr(b, env, None)
                opkey = 'Uint::%s_%s' % ('shl' if op == '<<' else 'shr', tb0)
                if isinstance(tb0, str) and opkey in self.fns:
                    # `Shl<$u>` / `Shr<$u> for Uint` for another integer type: the generated `@main` arm of impl_shift!
                    sig = self.fns[opkey]
                    ss = ['BITS', 'LIMBS', sa, sb0]
                    if len(sig) > 3 and sig[3]:
                        self.uses_fuel = True
                        ss = ['fuel'] + ss
                    return '(%s %s)' % (sig[0], ' '.join(ss)), 'uint'
                if isinstance(tb0, str) and tb0 in SIGNED:
                    raise TranslateError('shift of a Uint by a signed amount before %s is translated' % opkey)
                # `Shl<usize>` / `Shr<usize> for Uint` are `wrapping_shl` / `wrapping_shr` (impl_shift! in src/bits.rs)
                key = 'Uint::wrapping_shl' if op == '<<' else 'Uint::wrapping_shr'
                if key not in self.fns:
                    raise TranslateError('shift of a Uint before %s is translated' % key)
                sig = self.fns[key]
                sb, _ = self.expr(b, env, 'usize')
                ss = ['BITS', 'LIMBS', sa, sb]
                if len(sig) > 3 and sig[3]:
                    self.uses_fuel = True
                    ss = ['fuel'] + ss
                return '(%s %s)' % (sig[0], ' '.join(ss)), 'uint'
            if ta == 'uint':
                if op == '<<':
                    return '((%s * 2 ^ %s) %% 2 ^ BITS)' % (sa, sb), ta
                return '(%s / 2 ^ %s)' % (sa, sb), ta
            if op == '<<':
                return '(Rs.wshl %d %s %s)' % (self.w(ta), sa, sb), ta
            return '(%s / 2 ^ %s)' % (sa, sb), ta
        # infer literal types from the other side
        if a[0] == 'lit' and not a[2]:
            sb, tb = self.expr(b, env, exp)
            sa, ta = self.expr(a, env, tb)
        else:
            sa, ta = self.expr(a, env, exp)
            sb, tb = self.expr(b, env, ta)
        if ta == 'uint' and tb == 'uint' and getattr(self, 'uint_mode', False) != 'value' and op in ('<', '>', '<=', '>='):
            # `Ord for Uint` is the numeric order of the values (C04: `cmp` orders by `val`)
            lop = {'<': '<', '>': '>', '<=': '≤', '>=': '≥'}[op]
            return '(decide (Ruint.val %s %s Ruint.val %s))' % (sa, lop, sb), 'bool'
        if ta == 'uint' and tb == 'uint' and getattr(self, 'uint_mode', False) != 'value' and op in ('*', '-', '+'):
            # `Mul` / `Sub` / `Add for Uint` are `wrapping_mul` / `wrapping_sub` / `wrapping_add` (impl_bin_op!)
            key = {'*': 'Uint::wrapping_mul', '-': 'Uint::wrapping_sub', '+': 'Uint::wrapping_add'}[op]
            if key not in self.fns:
                raise TranslateError('operator %s on Uint before %s is translated' % (op, key))
            sig = self.fns[key]
            ss = ['BITS', 'LIMBS', sa, sb]
            if len(sig) > 3 and sig[3]:
                self.uses_fuel = True
                ss = ['fuel'] + ss
            return '(%s %s)' % (sig[0], ' '.join(ss)), 'uint'
        if ta == 'uint' and tb == 'uint' and getattr(self, 'uint_mode', False) != 'value' and op in ('|', '&', '^'):
            # `BitOr` / `BitAnd` / `BitXor for Uint`: limb-wise (src/bits.rs impl_bit_op!)
            lop = {'|': '|||', '&': '&&&', '^': '^^^'}[op]
            return '(List.zipWith (· %s ·) %s %s)' % (lop, sa, sb), 'uint'
        if 'uint' in (ta, tb) and getattr(self, 'uint_mode', False) != 'value' and op not in ('==', '!='):
            raise TranslateError('operator %s on Uint operands (limb mode)' % op)
        if isinstance(ta, str) and ta in FFMT:
            # float values are their bit patterns; the operators are the IEEE-754 model's (`Ruint.Float`)
            fop = {'<': 'lt', '>=': 'ge', '+': 'add', '%': 'fmod', '*': 'mul'}.get(op)
            if fop is None:
                raise TranslateError('operator %s on %s' % (op, ta))
            return '(Ruint.Float.%s %s %s %s)' % (fop, FFMT[ta], sa, sb), ('bool' if op in ('<', '>=') else ta)
        if ta == 'uint' and getattr(self, 'uint_mode', False) == 'value' and op not in ('==', '!=', '<', '>', '<=', '>='):
            # value mode: a Uint is its numeric value; the arithmetic operators are the wrapping ones (C01/C02)
            if op == '+':
                return '((%s + %s) %% 2 ^ BITS)' % (sa, sb), 'uint'
            if op == '-':
                return '((%s + 2 ^ BITS - %s) %% 2 ^ BITS)' % (sa, sb), 'uint'
            if op == '*':
                return '((%s * %s) %% 2 ^ BITS)' % (sa, sb), 'uint'
            if op in ('/', '%') and getattr(self, 'div_panics', False):
                # the panic on a zero divisor is part of the translation: `none`
                return '(if %s == 0 then none else some (%s %s %s))' % (sb, sa, {'/': '/', '%': '%%'}[op], sb), ('option', 'uint')
            if op == '%':
                # `a % m` on Uint panics for m = 0; the value-level term is Lean's total `%` (a for m = 0): callers guard it
                return '(%s %% %s)' % (sa, sb), 'uint'
            if op == '/':
                # `a / b` on Uint panics for b = 0; the value-level term is Lean's total `/` (0 for b = 0): callers guard it
                return '(%s / %s)' % (sa, sb), 'uint'
            raise TranslateError('operator %s on Uint values' % op)
        if op in ('==', '!=', '<', '>', '<=', '>='):
            lop = {'==': '==', '!=': '!=', '<': '<', '>': '>', '<=': '≤', '>=': '≥'}[op]
            if op in ('==', '!='):
                return '(%s %s %s)' % (sa, lop, sb), 'bool'
            return '(decide (%s %s %s))' % (sa, lop, sb), 'bool'
        if ta == 'bool':
            lop = {'|': '||', '&': '&&', '^': '^^'}[op]
            return '(%s %s %s)' % (sa, lop, sb), 'bool'
        w = self.w(ta)
        if op == '+':
            return '(Rs.wadd %d %s %s)' % (w, sa, sb), ta
        if op == '-':
            return '(Rs.wsub %d %s %s)' % (w, sa, sb), ta
        if op == '*':
            return '(Rs.wmul %d %s %s)' % (w, sa, sb), ta
        if op == '/':
            return '(%s / %s)' % (sa, sb), ta
        if op == '%':
            return '(%s %% %s)' % (sa, sb), ta
        if op == '&':
            return '(%s &&& %s)' % (sa, sb), ta
        if op == '|':
            return '(%s ||| %s)' % (sa, sb), ta
        if op == '^':
            return '(%s ^^^ %s)' % (sa, sb), ta
        raise TranslateError('unsupported operator ' + op)

    def call(self, e, env, exp):
        path, args = e[1], e[2]
        name = path[-1]
        if len(path) == 1:
            if name in ('unlikely', 'likely', 'Wrapping'):
                return self.expr(args[0], env, exp)
            if name == 'min' and len(args) == 2:           # `core::cmp::min` imported by name
                sa, ta = self.expr(args[0], env, exp)
                sb, _ = self.expr(args[1], env, ta)
                return '(min %s %s)' % (sa, sb), ta
            if name in ('le_word', 'be_word') and len(args) == 2:
                # stands for `u64::from_le_bytes` / `from_be_bytes` of the 8 bytes at the given offset (see the item's `rewrite`)
                sb, _ = self.expr(args[0], env)
                so, _ = self.expr(args[1], env, 'usize')
                return '(Rs.%s %s %s)' % ('leWord' if name == 'le_word' else 'beWord', sb, so), 'u64'
            if name == 'zeroed_uint' and len(args) == 1:
                # stands for `Uint::<B, L>::ZERO` of another limb count (see the item's `rewrite`)
                sn, _ = self.expr(args[0], env, 'usize')
                return '(List.replicate %s 0)' % sn, 'uint'
            if name == 'zeroed_limbs' and len(args) == 1:
                # stands for a zero-initialised `&mut [u64]` buffer of the given length (see the item's `rewrite`)
                sn, _ = self.expr(args[0], env, 'usize')
                return '(List.replicate %s 0)' % sn, 'mutslice'
            if name == 'Some' and len(args) == 1:
                inner = exp[1] if isinstance(exp, tuple) and exp[0] == 'option' else None
                sa, ta = self.expr(args[0], env, inner)
                return '(some %s)' % sa, ('option', ta)
            if name == 'Ok' and len(args) == 1:
                rt_ = exp if isinstance(exp, tuple) and exp[0] == 'result' else self.inner_rt
                if not (isinstance(rt_, tuple) and rt_[0] == 'result'):
                    raise TranslateError('Ok(..) outside a Result context')
                sa, ta = self.expr(args[0], env, rt_[1])
                return '(Except.ok %s)' % sa, rt_
            if name == 'Err' and len(args) == 1:
                rt_ = exp if isinstance(exp, tuple) and exp[0] == 'result' else self.inner_rt
                if not (isinstance(rt_, tuple) and rt_[0] == 'result'):
                    raise TranslateError('Err(..) outside a Result context')
                sa, _ = self.expr(args[0], env, rt_[2] if len(rt_) > 2 else None)
                return '(Except.error %s)' % sa, rt_
            sty = self.ty(name)
            if isinstance(sty, tuple) and sty[0] == 'tuple' and (name == 'Self' or name in getattr(self, 'structs', {})):
                parts = [self.expr(a, env, t)[0] for a, t in zip(args, sty[1])]
                return '(' + ', '.join(parts) + ')', sty
            if name in getattr(self, 'externs', {}):
                tmpl, rt = self.externs[name][0], self.externs[name][1]
                ss = [self.expr(a, env, None)[0] for a in args]
                return '(' + tmpl % tuple(ss) + ')', rt
            if name in self.fns:
                return self.call_fn(self.fns[name], args, env)
            raise TranslateError('call to untranslated function %s' % name)
        if '::'.join(path) in getattr(self, 'externs', {}):
            tmpl, rt = self.externs['::'.join(path)][0], self.externs['::'.join(path)][1]
            ss = [self.expr(a, env, None)[0] for a in args]
            return '(' + tmpl % tuple(ss) + ')', rt
        if len(path) == 2 and path[0] in getattr(self, 'enums', {}):
            return self.enum_value(path, args, env, exp)
        if len(path) == 3 and path[0] == 'Self' and path[1] == 'Error' and isinstance(getattr(self, 'assoc', {}).get('Error'), tuple):
            # `Self::Error::Variant(..)`
            et_ = self.ty(('assoc', 'Error'))
            return self.enum_value([et_[1], path[2]], args, env, et_)
        if (path[-2:] == ['cmp', 'min'] or path == ['min']) and len(args) == 2:
            sa, ta = self.expr(args[0], env, exp)
            sb, _ = self.expr(args[1], env, ta)
            return '(min %s %s)' % (sa, sb), ta
        if name in getattr(self, 'externs', {}) and path[0] in ('algorithms', 'crate', 'super'):
            tmpl, rt = self.externs[name][0], self.externs[name][1]
            ss = [self.expr(a, env, None)[0] for a in args]
            return '(' + tmpl % tuple(ss) + ')', rt
        if path[0] in ('algorithms', 'crate', 'super') and name in self.fns:
            return self.call_fn(self.fns[name], args, env)
        head = self.ty(path[0])
        if name == 'from' and head in WIDTH:
            s, t = self.expr(args[0], env)
            if t == 'bool':
                return '(%s).toNat' % s, head
            return s, head
        if path == ['Self', 'try_from'] and getattr(self, 'uint_mode', False) == 'value' and len(args) == 1 and args[0][0] == 'lit':
            # `Self::try_from(k)` for an integer literal: `Ok(k)` when k fits the width, else `Err(ValueTooLarge(BITS, k mod 2^BITS))`
            k_ = args[0][1]
            return ('(if decide (%d < 2 ^ BITS) then (Except.ok %d : Except (Nat × Nat × Nat) Nat) else Except.error (0, BITS, %d %% 2 ^ BITS))'
                    % (k_, k_, k_)), ('result', 'uint', ('enum', 'ToUintErrorV', []))
        if path == ['Self', 'try_from'] and getattr(self, 'uint_mode', False) == 'value' and len(args) == 1:
            sk, tk = self.expr(args[0], env, None)
            et_ = self.inner_rt[2] if (isinstance(self.inner_rt, tuple) and self.inner_rt[0] == 'result'
                                       and isinstance(self.inner_rt[2], tuple) and self.inner_rt[2][:2] == ('enum', 'ToUintError')) \
                else ('enum', 'ToUintErrorV', [])
            if tk == 'f64' and getattr(self, 'recursive', None):
                # the function calls itself (`TryFrom<f64>`): the recursion is on fuel; running out of it is `none`
                self.uses_fuel = True
                return '(%s fuel BITS LIMBS %s)' % (self.recursive, sk), ('option', self.inner_rt)
            if tk == 'f64' and 'UintV::try_from_f64' in self.fns:
                self.uses_fuel = True
                return '(%s fuel BITS LIMBS %s)' % (self.fns['UintV::try_from_f64'][0], sk), ('option', ('result', 'uint', et_))
            if tk in ('u64', 'usize'):
                # `TryFrom<u64> for Uint` at the value level (C07): `Ok(k)` when k fits, else `Err(ValueTooLarge(BITS, k mod 2^BITS))`
                return ('(let k_ := %s; if decide (k_ < 2 ^ BITS) then (Except.ok k_ : Except (Nat × Nat × Nat) Nat) '
                        'else Except.error (0, BITS, k_ %% 2 ^ BITS))' % sk), ('result', 'uint', et_)
            raise TranslateError('Self::try_from of a %r in value mode' % (tk,))
        if path == ['Self', 'from'] and getattr(self, 'uint_mode', False) == 'value' and len(args) == 1:
            # `Self::from(k)` panics when k does not fit the width
            sk, _ = self.expr(args[0], env, 'usize')
            return '(if decide (%s < 2 ^ BITS) then some %s else none)' % (sk, sk), ('option', 'uint')
        if path == ['Self', 'from'] and getattr(self, 'uint_mode', False) is True and len(args) == 1 and args[0][0] == 'lit':
            # `Self::from(k)` for a literal: the limbs of k (`from` panics when k does not fit; callers use small k)
            return '(Ruint.toLimbs LIMBS %d)' % args[0][1], 'uint'
        if path == ['Self', 'try_from'] and getattr(self, 'uint_mode', False) is True and len(args) == 1 \
                and 'try_from' not in getattr(self, 'call_alias', {}):
            # `Self::try_from(n)`: the `TryFrom<T> for Uint` impl selected by the argument's type
            sk, tk = self.expr(args[0], env, None)
            key = 'Uint::try_from_%s' % (tk,) if isinstance(tk, str) else None
            if key in self.fns:
                sig = self.fns[key]
                ss = ['BITS', 'LIMBS', sk]
                if len(sig) > 3 and sig[3]:
                    self.uses_fuel = True
                    ss = ['fuel'] + ss
                return '(%s %s)' % (sig[0], ' '.join(ss)), sig[2]
            raise TranslateError('Self::try_from of a %r before its impl is translated' % (tk,))
        if path[0] == 'Self' and name in getattr(self, 'call_alias', {}):
            # several impls define a function of this name: the item says which one this call resolves to
            sig = self.fns[self.call_alias[name]]
            ss = ['BITS', 'LIMBS'] + [self.expr(a, env, self.ty(pt))[0] for a, pt in zip(args, sig[1])]
            if len(sig) > 3 and sig[3]:
                self.uses_fuel = True
                ss = ['fuel'] + ss
            return '(%s %s)' % (sig[0], ' '.join(ss)), sig[2]
        if path[0] == 'Self' and getattr(self, 'uint_mode', False) and ('Uint::' + name) in self.fns and args:
            sig = self.fns['Uint::' + name]
            if sig[1] and sig[1][0] != 'uint':
                # an associated function without `self` (`Self::from_limbs(limbs)`)
                ss = ['BITS', 'LIMBS'] + [self.expr(a, env, self.ty(pt))[0] for a, pt in zip(args, sig[1])]
                if len(sig) > 3 and sig[3]:
                    self.uses_fuel = True
                    ss = ['fuel'] + ss
                return '(%s %s)' % (sig[0], ' '.join(ss)), sig[2]
            # `Self::method(x, …)`: the method call `x.method(…)`
            return self.mcall(('mcall', args[0], name, args[1:]), env, exp)
        key = '%s::%s' % (path[0] if isinstance(head, tuple) else head, name)
        if path[0] == 'Self' and self.self_name:
            key = '%s::%s' % (self.self_name, name)
        if key in self.fns:
            return self.call_fn(self.fns[key], args, env)
        raise TranslateError('unsupported call %s' % '::'.join(path))

    def enum_slots(self, et):
        if et[1] == 'ToUintErrorV':
            return ['usize', 'uint']           # value mode: (variant, bits, wrapped value)
        return self.enum_slots0(et)

    def enum_slots0(self, et):
        """field slot types of an enum type ('enum', name, type args): position k holds the k-th field of whichever variant has
        one (the variants must agree on its type); the value of the enum is (variant index, slot 1, …, padded with defaults)"""
        name, targs = et[1], et[2]
        tp, fts = self.enum_fields[name]
        flat = [self.enum_variant_slots(et, vi) for vi in range(len(fts))]
        n = max([len(f) for f in flat] + [0])
        slots = []
        for k in range(n):
            ts = []
            for f in flat:
                if len(f) > k and f[k] not in ts:
                    ts.append(f[k])
            if len(ts) != 1:
                if all(isinstance(t, str) and t in WIDTH for t in ts):
                    ts = ['u64']                 # words of different types share the slot (a `char`, a `u64`, a variant index)
                else:
                    raise TranslateError('variants of %s disagree on the type of field %d' % (name, k))
            slots.append(ts[0])
        if name == 'BaseConvertError' or not slots:
            slots = (slots + ['u64', 'u64'])[:max(2, len(slots))]
        return slots

    def enum_variant_slots(self, et, vi):
        """slot types of variant number `vi` of the enum type `et`: one per field, a field that is itself an enum is flattened
        into (its variant index, its slots)"""
        name, targs = et[1], et[2]
        tp, fts = self.enum_fields[name]
        out = []
        for ft in fts[vi]:
            t = targs[0] if (tp and ft == tp and targs) else self.ty(Parser(tokenize(ft)).parse_type())
            if isinstance(t, tuple) and t and t[0] == 'enum':
                out += ['u64'] + list(self.enum_slots(t))
            else:
                out.append(t)
        return out

    def enum_value(self, path, args, env, exp=None):
        """`Enum::Variant` / `Enum::Variant(a, …)`: (variant index in declaration order, fields padded with defaults)"""
        variants = self.enums[path[0]]
        if path[1] not in [v for v, _ in variants]:
            raise TranslateError('unknown variant %s::%s' % tuple(path))
        idx = [v for v, _ in variants].index(path[1])
        ar = variants[idx][1]
        if ar != len(args):
            raise TranslateError('variant %s::%s takes %d fields' % (path[0], path[1], ar))
        et = exp if isinstance(exp, tuple) and exp and exp[0] == 'enum' and exp[1] == path[0] else None
        if et is None:
            rt_ = self.inner_rt
            if isinstance(rt_, tuple) and rt_[0] == 'result' and isinstance(rt_[2], tuple) and rt_[2][0] == 'enum' and rt_[2][1] == path[0]:
                et = rt_[2]
            else:
                et = ('enum', path[0], [])
        slots = self.enum_slots(et)
        fs = []
        for a in args:
            sa_, ta_ = self.expr(a, env, slots[len(fs)] if len(fs) < len(slots) else None)
            if isinstance(ta_, tuple) and ta_ and ta_[0] == 'enum':
                # a field that is itself an enum value: flattened into (its variant index, its slots)
                k_ = 1 + len(self.enum_slots(ta_))
                fs += ['(%s)%s' % (sa_, '.2' * i_ + ('.1' if i_ < k_ - 1 else '')) for i_ in range(k_)]
            else:
                fs.append(sa_)
        for t in slots[len(fs):]:
            fs.append('0' if (t == 'uint' and getattr(self, 'uint_mode', False) == 'value')
                      else '[]' if t in ('uint', 'slice', 'mutslice') else 'false' if t == 'bool' else '0')
        return '(' + ', '.join([str(idx)] + fs) + ')', et

    def call_fn(self, sig, args, env):
        ln, pts, rt = sig[0], sig[1], sig[2]
        fuel = len(sig) > 3 and sig[3]
        ss = [self.expr(a, env, self.ty(pt))[0] for a, pt in zip(args, pts)]
        consts = sig[4] if len(sig) > 4 else []
        for c in consts:
            # a const generic of the callee is taken to be the caller's parameter of the same name
            if c not in (getattr(self, 'const_generics', None) or []) and not (
                    getattr(self, 'uint_mode', False) is True and len(consts) == 1) and not (
                    getattr(self, 'uint_mode', False) and c in ('BITS', 'LIMBS')):
                raise TranslateError('cannot infer const generic %s of %s' % (c, ln))
        if consts and getattr(self, 'uint_mode', False) is True and consts[0] not in (getattr(self, 'const_generics', None) or []):
            # a `[u64; N]` parameter of the callee receives `self.limbs`: N is LIMBS
            consts = ['LIMBS']
        ss = list(consts) + ss
        if fuel:
            self.uses_fuel = True
            ss = ['fuel'] + ss
        return '(%s %s)' % (ln, ' '.join(ss)), rt

    VALUE_METHODS = {
        # name: (template over (self, args…), result type) — the value-level meaning of the Uint method (theorems of C01–C06)
        'is_zero': ('(%s == 0)', 'bool'),
        'bit': ('(decide (%s < BITS) && Nat.testBit %s %s)', 'bool'),
        'wrapping_mul': ('((%s * %s) %% 2 ^ BITS)', 'uint'),
        'wrapping_add': ('((%s + %s) %% 2 ^ BITS)', 'uint'),
        'wrapping_sub': ('((%s + 2 ^ BITS - %s) %% 2 ^ BITS)', 'uint'),
        'wrapping_neg': ('((2 ^ BITS - %s) %% 2 ^ BITS)', 'uint'),
        # C05: `overflowing_shl` — value `(x · 2^k) mod 2^BITS`, flag iff set bits are shifted out
        'overflowing_shl': ('((%s * 2 ^ %s) %% 2 ^ BITS, decide (2 ^ BITS ≤ %s * 2 ^ %s))', ('tuple', ['uint', 'bool'])),
        'overflowing_mul': ('((%s * %s) %% 2 ^ BITS, decide (2 ^ BITS ≤ %s * %s))', ('tuple', ['uint', 'bool'])),
        'overflowing_add': ('((%s + %s) %% 2 ^ BITS, decide (2 ^ BITS ≤ %s + %s))', ('tuple', ['uint', 'bool'])),
        # C03 / C02: `checked_div` is `None` for a zero divisor, `checked_mul` is `None` exactly when the product does not fit
        'checked_div': ('(if %s == 0 then none else some (%s / %s))', ('option', 'uint')),
        'checked_mul': ('(if decide (%s * %s < 2 ^ BITS) then some (%s * %s) else none)', ('option', 'uint')),
        # C13 / C01 / C05 / C06 / C07: value-level meanings used by log / root
        'checked_pow': ('(if decide (%s ^ %s < 2 ^ BITS) then some (%s ^ %s) else none)', ('option', 'uint')),
        'checked_add': ('(if decide (%s + %s < 2 ^ BITS) then some (%s + %s) else none)', ('option', 'uint')),
        'saturating_shl': ('(if decide (%s * 2 ^ %s < 2 ^ BITS) then %s * 2 ^ %s else 2 ^ BITS - 1)', 'uint'),
        'bit_len': ('(if %s == 0 then 0 else Nat.log2 %s + 1)', 'usize'),
        # `x.to::<usize>()` of a value that fits (the callers convert logarithms, which are at most BITS)
        'to': ('%s', 'usize'),
    }

    def mcall(self, e, env, exp):
        _, recv, name, args = e
        if name == 'and_then' and len(args) == 1 and args[0][0] == 'closure' and len(args[0][1]) == 1:
            # `res.and_then(|n| body)` on a `Result`: `Ok(n)` continues with the body, an error is passed on
            sr, tr = self.expr(recv, env, exp)
            if not (isinstance(tr, tuple) and tr[0] == 'result'):
                raise TranslateError('and_then on a non-Result')
            v = args[0][1][0]
            e2 = dict(env)
            e2[v] = tr[1]
            sb, tb = self.expr(args[0][2], e2, tr)
            return '(match %s with\n  | Except.ok %s => %s\n  | Except.error e_ => Except.error e_)' % (sr, lean_ident(v), sb), tb
        r0 = recv[1] if recv[0] == 'paren' else recv
        if name == 'exp2' and not args and r0[0] == 'cast' and isinstance(self.ty(r0[2]), str) and self.ty(r0[2]) in FFMT:
            # `(n as f64).exp2()` for an unsigned integer n: the power of two 2^n as an `f64` (libm's `exp2` is taken to be
            # exact on integer arguments — trusted, as in the hand model)
            sn, _ = self.expr(r0[1], env, 'usize')
            return '(Ruint.Float.exp2Int %s %s)' % (FFMT[self.ty(r0[2])], sn), self.ty(r0[2])
        if name == 'is_char_boundary' and len(args) == 1:
            sr0, tr0 = self.expr(recv, env, None)
            sk, _ = self.expr(args[0], env, 'usize')
            if tr0 == 'slice':
                return '(Rs.isCharBoundary %s %s)' % (sr0, sk), 'bool'
        if name == 'len' and not args and getattr(self, 'str_params', None) == 'panics' and recv[0] == 'path' \
                and len(recv[1]) == 1 and recv[1][0] in getattr(self, 'str_vars', ()):
            sr0, _ = self.expr(recv, env, None)
            return '(Rs.utf8Len %s)' % sr0, 'usize'
        if name == 'split_at' and len(args) == 1 and getattr(self, 'str_params', None) == 'panics':
            # `str::split_at(k)` panics when `k` is not a character boundary: `none`
            sr0, tr0 = self.expr(recv, env, None)
            sk, _ = self.expr(args[0], env, 'usize')
            if tr0 == 'slice':
                return ('(if Rs.isCharBoundary %s %s then some (Rs.splitAtByte %s %s) else none)' % (sr0, sk, sr0, sk),
                        ('option', ('tuple', ['slice', 'slice'])))
        if name == 'chars' and not args and getattr(self, 'str_params', None) is not None:
            return self.expr(recv, env, exp)             # the characters of a `str`: the list itself
        if name == 'split_at' and len(args) == 1 and getattr(self, 'str_params', None) is not None:
            sr0, tr0 = self.expr(recv, env, None)
            sk, _ = self.expr(args[0], env, 'usize')
            if tr0 == 'slice':
                return '(Rs.splitAtByte %s %s)' % (sr0, sk), ('tuple', ['slice', 'slice'])
        if name == 'ok_or_else' and len(args) == 1 and args[0][0] == 'closure' and not args[0][1]:
            # `opt.ok_or_else(|| e)`: `Some(v)` is `Ok(v)`, `None` is `Err(e)`
            so, to = self.expr(recv, env, None)
            if not (isinstance(to, tuple) and to[0] == 'option'):
                raise TranslateError('ok_or_else on a non-Option')
            rt_ = exp if isinstance(exp, tuple) and exp[0] == 'result' else self.inner_rt
            se, te = self.expr(args[0][2], env, rt_[2] if isinstance(rt_, tuple) and len(rt_) > 2 else None)
            return '(match %s with\n  | some v_ => Except.ok v_\n  | none => Except.error %s)' % (so, se), ('result', to[1], te)
        if name == 'ok' and not args:
            # `res.ok()`: `Ok(v)` is `Some(v)`, an error is `None`
            inner_exp = exp[1] if isinstance(exp, tuple) and exp[0] == 'option' else None
            if recv[0] == 'mcall' and recv[2] == 'try_into' and not recv[3] and isinstance(inner_exp, str):
                # `self.try_into()` with the target type known from the context: the `TryFrom<&Uint> for T` impl
                s0, t0 = self.expr(recv[1], env, None)
                key = '%s::try_from_uint' % inner_exp
                if t0 == 'uint' and key in self.fns:
                    sig = self.fns[key]
                    ss = ['BITS', 'LIMBS', s0]
                    if len(sig) > 3 and sig[3]:
                        self.uses_fuel = True
                        ss = ['fuel'] + ss
                    return ('(match (%s %s) with\n  | Except.ok v_ => some v_\n  | Except.error _ => none)'
                            % (sig[0], ' '.join(ss))), ('option', inner_exp)
                raise TranslateError('try_into() to %r before its impl is translated' % (inner_exp,))
            sr0, tr0 = self.expr(recv, env, None)
            if isinstance(tr0, tuple) and tr0[0] == 'result':
                return '(match %s with\n  | Except.ok v_ => some v_\n  | Except.error _ => none)' % sr0, ('option', tr0[1])
            raise TranslateError('ok() on a non-Result %r' % (tr0,))
        sr, tr = self.expr(recv, env, exp)
        if tr == 'f64':
            if name == 'is_nan' and not args:
                return '(Ruint.Float.isNaN Ruint.Float.b64 %s)' % sr, 'bool'
            if name == 'is_normal' and not args:
                return '(Ruint.Float.isNormal Ruint.Float.b64 %s)' % sr, 'bool'
            if name == 'abs' and not args:
                return '(Ruint.Float.abs Ruint.Float.b64 %s)' % sr, 'f64'
            if name == 'to_bits' and not args:
                return sr, 'u64'                      # the value *is* its bit pattern
            raise TranslateError('f64 method %s' % name)
        if tr == 'uint' and getattr(self, 'uint_mode', False) == 'value':
            ext = getattr(self, 'externs', {})
            if name in ext:
                tmpl, rt = ext[name]
                ss = [sr] + [self.expr(a, env, None)[0] for a in args]
                return '(' + tmpl % tuple(ss) + ')', rt
            if ('UintV::' + name) in self.fns:      # only functions translated in value mode themselves
                sig = self.fns['UintV::' + name]
                ss = ['BITS', 'LIMBS', sr] + [self.expr(a, env, self.ty(pt))[0] for a, pt in zip(args, sig[1][1:])]
                if len(sig) > 3 and sig[3]:
                    self.uses_fuel = True
                    ss = ['fuel'] + ss
                return '(%s %s)' % (sig[0], ' '.join(ss)), sig[2]
            if name in self.VALUE_METHODS:
                tmpl, rt = self.VALUE_METHODS[name]
                aa = [self.expr(a, env, 'uint' if name != 'bit' else 'usize')[0] for a in args]
                if name == 'bit':
                    return '(' + tmpl % (aa[0], sr, aa[0]) + ')', rt
                if name == 'saturating_shl':
                    aa = [self.expr(a, env, 'usize')[0] for a in args]
                if name == 'overflowing_shl':
                    aa = [self.expr(a, env, 'usize')[0] for a in args]
                if name in ('overflowing_mul', 'overflowing_add', 'checked_mul', 'checked_pow', 'checked_add', 'saturating_shl',
                            'overflowing_shl'):
                    return '(' + tmpl % (sr, aa[0], sr, aa[0]) + ')', rt
                if name == 'bit_len':
                    return '(' + tmpl % (sr, sr) + ')', rt
                if name == 'checked_div':
                    return '(' + tmpl % (aa[0], sr, aa[0]) + ')', rt
                return '(' + tmpl % tuple([sr] + aa) + ')', rt
            if name == 'cmp' and len(args) == 1:
                sb, _ = self.expr(args[0], env, 'uint')        # `Ord for Uint` is the order of the values (C04)
                return '(compare %s %s)' % (sr, sb), 'Ordering'
            raise TranslateError('Uint method %s has no value-level meaning here' % name)
        if isinstance(tr, str) and tr in WIDTH:
            w = WIDTH[tr]
            if name == 'is_negative' and tr in SIGNED and not args:
                return '(decide (2 ^ %d ≤ %s))' % (w - 1, sr), 'bool'     # the sign bit of the two's-complement pattern
            if name in ('wrapping_add', 'wrapping_sub', 'wrapping_mul'):
                sb, _ = self.expr(args[0], env, tr)
                f = {'wrapping_add': 'wadd', 'wrapping_sub': 'wsub', 'wrapping_mul': 'wmul'}[name]
                return '(Rs.%s %d %s %s)' % (f, w, sr, sb), tr
            if name in ('overflowing_add', 'overflowing_sub', 'overflowing_mul'):
                sb, _ = self.expr(args[0], env, tr)
                f = {'overflowing_add': 'oadd', 'overflowing_sub': 'osub', 'overflowing_mul': 'omul'}[name]
                return '(Rs.%s %d %s %s)' % (f, w, sr, sb), ('tuple', [tr, 'bool'])
            if name == 'cmp' and len(args) == 1:
                sb, _ = self.expr(args[0], env, tr)
                return '(compare %s %s)' % (sr, sb), 'Ordering'
            if name == 'saturating_sub':
                sb, _ = self.expr(args[0], env, tr)
                return '(%s - %s)' % (sr, sb), tr          # ℕ subtraction truncates at 0
            if name == 'wrapping_neg':
                return '(Rs.wneg %d %s)' % (w, sr), tr
            if name == 'leading_zeros':
                return '(Rs.clz %d %s)' % (w, sr), 'u32'
            if name == 'trailing_zeros':
                return '(Rs.ctz %d %s)' % (w, sr), 'u32'
            if name == 'reverse_bits':
                return '(Rs.rev %d %s)' % (w, sr), tr
            if name == 'trailing_ones':
                return '(Rs.ctz %d (2 ^ %d - 1 - %s))' % (w, w, sr), 'u32'
            if name == 'count_ones':
                return '(Rs.popcnt %s)' % sr, 'u32'
            key = '%s::%s' % (tr, name)
            if key in self.fns:
                sig = self.fns[key]
                ss = [sr] + [self.expr(a, env, self.ty(pt))[0] for a, pt in zip(args, sig[1][1:])]
                return '(%s %s)' % (sig[0], ' '.join(ss)), sig[2]
        if tr == 'uint' and name in ('as_limbs', 'into_limbs') and not args and getattr(self, 'uint_mode', False) is True:
            return sr, 'uint'
        if tr in ('uint', 'slice', 'mutslice') and name in ('iter', 'copied') and not args:
            return sr, tr
        if tr == 'uintlist' and name in ('copied', 'iter', 'into_iter') and not args:
            return sr, tr
        if tr == 'uintlist' and name == 'fold' and len(args) == 2 and args[1][0] == 'path' and args[1][1][0] == 'Self' \
                and len(args[1][1]) == 2 and ('Uint::' + args[1][1][1]) in self.fns:
            # `iter.fold(init, Self::method)`: a left fold with the (translated) binary method
            si, _ = self.expr(args[0], env, 'uint')
            sig = self.fns['Uint::' + args[1][1][1]]
            pre = ['BITS', 'LIMBS']
            if len(sig) > 3 and sig[3]:
                self.uses_fuel = True
                pre = ['fuel'] + pre
            return '(List.foldl (fun acc_ x_ => %s %s acc_ x_) %s %s)' % (sig[0], ' '.join(pre), si, sr), 'uint'
        if tr in ('uint', 'slice', 'mutslice') and name in ('position', 'rposition') and len(args) == 1 and args[0][0] == 'closure' \
                and len(args[0][1]) == 1:
            x = args[0][1][0]
            env2 = dict(env)
            env2[x] = 'u64'
            sb, _ = self.expr(args[0][2], env2, 'bool')
            return '(Rs.%s (fun %s => %s) %s)' % (name, lean_ident(x), sb, sr), ('option', 'usize')
        if tr in ('uint', 'slice', 'mutslice') and name == 'any' and len(args) == 1 and args[0][0] == 'closure' \
                and len(args[0][1]) == 1:
            x = args[0][1][0]
            env2 = dict(env)
            env2[x] = 'u64'
            sb, _ = self.expr(args[0][2], env2, 'bool')
            return '(%s.any (fun %s => %s))' % (sr, lean_ident(x), sb), 'bool'
        if tr == 'bool' and name == 'then_some' and len(args) == 1:
            sv, tv = self.expr(args[0], env, exp[1] if isinstance(exp, tuple) and exp[0] == 'option' else None)
            return '(if %s then some %s else none)' % (sr, sv), ('option', tv)
        if tr in ('uint', 'slice', 'mutslice') and name == 'last' and not args:
            return '(%s).getLast?' % sr, ('option', 'u64')
        if tr in ('uint', 'slice', 'mutslice') and name == 'first' and not args:
            return '(%s).head?' % sr, ('option', 'u64')
        if isinstance(tr, tuple) and tr[0] == 'option':
            if name == 'copied' and not args:
                return sr, tr
            if name == 'is_some' and not args:
                return '((%s).isSome)' % sr, 'bool'
            if name == 'is_none' and not args:
                return '((%s).isNone)' % sr, 'bool'
            if name == 'map_or' and len(args) == 2 and args[1] == ('path', ['Err']):
                # `opt.map_or(d, Err)`: `Some(e)` is `Err(e)`, `None` is the default
                rt_ = exp if isinstance(exp, tuple) and exp[0] == 'result' else self.inner_rt
                sd, td = self.expr(args[0], env, rt_)
                return '(match %s with\n  | some e_ => Except.error e_\n  | none => %s)' % (sr, sd), td
            if name == 'unwrap_or' and len(args) == 1:
                sd, _ = self.expr(args[0], env, tr[1])
                return '((%s).getD %s)' % (sr, sd), tr[1]
            if name == 'unwrap_or_default' and not args and tr[1] == 'uint' and getattr(self, 'uint_mode', False) == 'value':
                return '((%s).getD 0)' % sr, 'uint'          # `Uint::default()` is ZERO
            if name == 'map_or' and len(args) == 2 and args[1][0] == 'closure' and len(args[1][1]) == 1:
                sd, td = self.expr(args[0], env, exp)
                x = args[1][1][0]
                env2 = dict(env)
                env2[x] = tr[1]
                sb, tb = self.expr(args[1][2], env2, td)
                return '(match %s with\n  | some %s => %s\n  | none => %s)' % (sr, lean_ident(x), sb, sd), tb
        if tr in ('slice', 'mutslice') and name == 'is_empty' and not args:
            return '(%s).isEmpty' % sr, 'bool'
        if (tr in ('slice', 'mutslice', 'uint') or (isinstance(tr, tuple) and tr[0] == 'array')) and name in ('len', 'count_'):
            return '(%s).length' % sr, 'usize'
        if tr == 'uint' and ('Uint::' + name) in self.fns:
            sig = self.fns['Uint::' + name]
            ss = ['BITS', 'LIMBS', sr] + [self.expr(a, env, self.ty(pt))[0] for a, pt in zip(args, sig[1][1:])]
            if len(sig) > 3 and sig[3]:
                self.uses_fuel = True
                ss = ['fuel'] + ss
            return '(%s %s)' % (sig[0], ' '.join(ss)), sig[2]
        if isinstance(tr, tuple) and tr[0] == 'tuple':
            for sn, st in self.structs.items():
                if st == tr and ('%s::%s' % (sn, name)) in self.fns:
                    sig = self.fns['%s::%s' % (sn, name)]
                    ss = [sr] + [self.expr(a, env, self.ty(pt))[0] for a, pt in zip(args, sig[1][1:])]
                    if len(sig) > 3 and sig[3]:
                        self.uses_fuel = True
                        ss = ['fuel'] + ss
                    return '(%s %s)' % (sig[0], ' '.join(ss)), sig[2]
        if tr and tr[0] == 'array' and name == 'get_unchecked':
            i, _ = self.expr(args[0], env, 'usize')
            return '(%s.getD %s 0)' % (sr, i), tr[1]
        raise TranslateError('unsupported method %s on %r' % (name, tr))

    # blocks ------------------------------------------------------------------------------------
    def assigned(self, stmts, declared):
        """variables assigned in stmts (recursively) that are not declared inside"""
        out = []
        local = set()
        for s in stmts:
            if s[0] == 'let':
                for n in self.pat_names(s[1]):
                    local.add(n)
            elif s[0] == 'assign':
                for n in self.target_roots(s[1]):
                    if n and n not in local and n not in out:
                        out.append(n)
            if s[0] == 'expr' and s[1][0] == 'mcall' and s[1][2] in ('fill', 'copy_from_slice', 'copy_within', 'push', 'pop', 'truncate'):
                for n in self.target_roots(s[1][1]):
                    if n and n not in local and n not in out:
                        out.append(n)
            if s[0] == 'expr' and s[1][0] == 'mcall' and s[1][2] == 'reverse' and not s[1][3]:
                for n in self.target_roots(s[1][1]):
                    if n and n not in local and n not in out:
                        out.append(n)
            if s[0] == 'expr' and s[1][0] == 'mcall' and s[1][1][0] == 'path' and len(s[1][1][1]) == 1:
                # `x.method(…);` with `&mut self` (e.g. `result.apply_mask();`) updates x
                sig = self.fns.get('Uint::' + s[1][2])
                n = s[1][1][1][0]
                if sig and len(sig) > 5 and sig[5] and n not in local and n not in out:
                    out.append(n)
            if s[0] in ('let', 'assign', 'expr'):
                mc = self.mut_call(s)
                if mc:
                    for tg in mc[1]:
                        for n in self.target_roots(tg):
                            if n and n not in local and n not in out:
                                out.append(n)
            elif s[0] == 'while':
                for n in self.assigned(s[2][1], declared):
                    if n not in local and n not in out:
                        out.append(n)
            elif s[0] == 'foreach':
                pairs, _ = self.foreach_pairs(s[1], s[2])
                m = dict(pairs)
                for n in self.assigned(s[3][1], declared):
                    n2 = m.get(n, n)
                    if n2 not in local and n2 not in out:
                        out.append(n2)
            elif s[0] == 'for':
                for n in self.assigned(s[5][1], declared):
                    if n not in local and n not in out and n != s[1]:
                        out.append(n)
            elif s[0] in ('expr', 'expr_nosemi', 'tail') and s[1][0] == 'if':
                for blk in (s[1][2], s[1][3]):
                    if blk:
                        for n in self.assigned(blk[1], declared):
                            if n not in local and n not in out:
                                out.append(n)
            elif s[0] in ('expr', 'expr_nosemi', 'tail') and s[1][0] == 'match':
                for _, body in s[1][2]:
                    if body[0] == 'block':
                        for n in self.assigned(body[1], declared):
                            if n not in local and n not in out:
                                out.append(n)
        return out

    def target_roots(self, t):
        """variables written by an assignment target (variable, `x.limbs[i]`, `x[i]`, tuple of targets)"""
        if t[0] == 'path' and len(t[1]) == 1:
            return [t[1][0]]
        if t[0] == 'tuple':
            r = []
            for x in t[1]:
                r += self.target_roots(x)
            return r
        if t[0] in ('index', 'fieldname', 'field'):
            return self.target_roots(t[1])
        return [None]

    def panic_value(self, result, env):
        """what a panic evaluates to here: `none` at function level; inside a loop body the loop stops with the function's
        result slot set to `none`"""
        if isinstance(result, tuple) and result[0] == 'loop':
            if not result[3]:
                raise TranslateError('panic site in a loop without a result slot')
            return self.finish(result, env, ('ret', 'none'))[0]
        return 'none'

    def any_panicking(self, node):
        """does `node` contain a call that can panic (see `panicking`)"""
        if isinstance(node, list):
            return any(self.any_panicking(x) for x in node)
        if isinstance(node, tuple) and node:
            if self.panicking(node):
                return True
            return any(self.any_panicking(x) for x in node[1:])
        return False

    def panicking(self, e):
        """is `e` (at its root) a call that can panic: `expect` / `unwrap`, or a translated function recorded as panicking"""
        if not (isinstance(e, tuple) and e):
            return False
        if e[0] == 'mcall' and e[2] in ('expect', 'unwrap'):
            return True
        if e[0] == 'mcall' and e[2] == 'split_at' and getattr(self, 'str_params', None) == 'panics':
            return True
        if e[0] == 'bin' and e[1] in ('/', '%') and getattr(self, 'div_panics', False):
            return True            # `Div` / `Rem for Uint` panic on a zero divisor (item flag `div_panics`: every `/`, `%` is one)
        if e[0] == 'call' and ('::'.join(e[1]) in getattr(self, 'panic_externs', ()) or e[1][-1] in getattr(self, 'panic_externs', ())):
            return True
        if e[0] == 'call' and e[1] == ['Self', 'from'] and getattr(self, 'uint_mode', False) == 'value':
            return True
        if e[0] == 'call' and e[1] == ['Self', 'try_from'] and len(e[2]) == 1 and getattr(self, 'uint_mode', False) == 'value' \
                and (getattr(self, 'recursive', None) or 'UintV::try_from_f64' in self.fns):
            try:
                return self.expr(e[2][0], dict(getattr(self, 'cur_env', {})), None)[1] == 'f64'     # the recursive call
            except TranslateError:
                return False
        if e[0] == 'call' and e[1] == ['Self', 'try_from'] and len(e[2]) == 1 and getattr(self, 'uint_mode', False) is True \
                and 'try_from' not in getattr(self, 'call_alias', {}):
            try:
                tk = self.expr(e[2][0], dict(getattr(self, 'cur_env', {})), None)[1]
            except TranslateError:
                return False
            sig = self.fns.get('Uint::try_from_%s' % (tk,), ()) if isinstance(tk, str) else ()
            return len(sig) > 7 and bool(sig[7])
        if e[0] == 'call' and e[1][0] == 'Self' and len(e[1]) == 2 and e[1][1] in getattr(self, 'call_alias', {}):
            sig = self.fns.get(self.call_alias[e[1][1]], ())
            return len(sig) > 7 and bool(sig[7])
        if e[0] == 'call' and e[1][0] == 'Self' and len(e[1]) == 2 and getattr(self, 'uint_mode', False) is True:
            sig = self.fns.get('Uint::' + e[1][1], ())
            return len(sig) > 7 and bool(sig[7])
        if e[0] == 'call':
            sig = self.fns.get(e[1][-1], ())
            return len(sig) > 7 and bool(sig[7])
        if e[0] == 'mcall' and getattr(self, 'uint_mode', False) is True:
            sig = self.fns.get('Uint::' + e[2], ())
            return len(sig) > 7 and bool(sig[7])
        if e[0] == 'mcall' and getattr(self, 'uint_mode', False) == 'value':
            sig = self.fns.get('UintV::' + e[2], ())
            return len(sig) > 7 and bool(sig[7])
        return False

    def slice_place(self, t, env):
        """`xs` or `xs[a..b]` / `xs[..b]` / `xs[a..]` with `xs` a `&mut [u64]` variable"""
        if t[0] == 'index' and t[2][0] in ('range', 'rangeto', 'rangefrom'):
            t = t[1]
        return t[0] == 'path' and len(t[1]) == 1 and (env.get(t[1][0]) in ('mutslice', 'slice')
                                                      or (isinstance(env.get(t[1][0]), tuple) and env[t[1][0]][0] == 'array'))

    def assign_lines(self, target, term, ty, env):
        """`let` lines realising `target = term`"""
        if target[0] == 'path' and len(target[1]) == 1:
            n = target[1][0]
            if n not in env:
                raise TranslateError('assignment to unknown variable %s' % n)
            return 'let %s := %s\n  ' % (lean_ident(n), term)
        if target[0] == 'tuple':
            self.tmp = getattr(self, 'tmp', 0) + 1
            t = 'sel%d' % self.tmp
            out = 'let %s := %s\n  ' % (t, term)
            n = len(target[1])
            for i, x in enumerate(target[1]):
                proj = '.2' * i + ('.1' if i < n - 1 else '')
                out += self.assign_lines(x, t + proj, ty[1][i] if isinstance(ty, tuple) and ty[0] == 'tuple' else None, env)
            return out
        if target[0] == 'fieldname' and target[2] == 'limbs' and target[1][0] == 'path' and len(target[1][1]) == 1 \
                and env.get(target[1][1][0]) == 'uint':
            return 'let %s := %s\n  ' % (lean_ident(target[1][1][0]), term)
        if target[0] == 'index' and target[2][0] in ('range', 'rangeto', 'rangefrom'):
            base = target[1]
            if not (base[0] == 'path' and len(base[1]) == 1 and (env.get(base[1][0]) in ('slice', 'mutslice') or (
                    isinstance(env.get(base[1][0]), tuple) and env[base[1][0]][0] == 'array'))):
                raise TranslateError('unsupported sub-slice assignment target')
            n = lean_ident(base[1][0])
            r = target[2]
            if r[0] == 'rangeto':
                hi, _ = self.expr(r[1], env, 'usize')
                return 'let %s := (%s ++ %s.drop %s)\n  ' % (n, term, n, hi)
            if r[0] == 'rangefrom':
                lo, _ = self.expr(r[1], env, 'usize')
                return 'let %s := (%s.take %s ++ %s)\n  ' % (n, n, lo, term)
            lo, _ = self.expr(r[1], env, 'usize')
            hi, _ = self.expr(r[2], env, 'usize')
            return 'let %s := (%s.take %s ++ %s ++ %s.drop %s)\n  ' % (n, n, lo, term, n, hi)
        if target[0] == 'index':
            base = target[1]
            if base[0] == 'fieldname' and base[2] == 'limbs':
                base = base[1]
            roots = self.target_roots(base)
            if len(roots) != 1 or roots[0] is None or base[0] != 'path':
                raise TranslateError('unsupported indexed assignment target')
            n = roots[0]
            idx, _ = self.expr(target[2], env, 'usize')
            return 'let %s := (%s.set %s %s)\n  ' % (lean_ident(n), lean_ident(n), idx, term)
        raise TranslateError('unsupported assignment target')

    def pat_names(self, p):
        if p[0] == 'pid':
            return [p[1]]
        r = []
        for q in p[1]:
            r += self.pat_names(q)
        return r

    def pat(self, p):
        if p[0] == 'pid':
            return '_' if p[1] == '_' else lean_ident(p[1])
        return '(' + ', '.join(self.pat(q) for q in p[1]) + ')'

    def bind(self, p, t, env):
        if p[0] == 'pid':
            if p[1] != '_':
                env[p[1]] = t
        else:
            for q, tt in zip(p[1], t[1]):
                self.bind(q, tt, env)

    def has_return(self, blk):
        for s in blk[1]:
            if s[0] in ('return', 'break', 'continue', 'assert'):
                return True
            if getattr(self, 'panics', False) and self.panic_site_in(s):
                return True       # a panic leaves the function from here: handled like an early return
            if s[0] in ('expr', 'expr_nosemi', 'tail') and s[1][0] == 'if':
                if self.has_return(s[1][2]) or (s[1][3] and self.has_return(s[1][3])):
                    return True
            if s[0] in ('expr', 'expr_nosemi', 'tail') and s[1][0] == 'match':
                if any(b_[0] == 'block' and self.has_return(b_) for _, b_ in s[1][2]):
                    return True
        return False

    def block(self, blk, env, exp, result=None):
        """translate statements; `result`: None → value of the tail expression, else a list of variable
        names whose final values form the result tuple (for statement-`if`s that assign)."""
        env = dict(env)
        return self.stmts(blk[1], env, exp, result)

    def finish(self, result, env, flow='cont'):
        """value of a block that ends normally (or by break/continue/return inside a loop body).
        loop bodies return `(state, continue?)`; with function-returns inside, the state carries a last
        `Option ret` component."""
        if isinstance(result, tuple) and result[0] == 'loop':
            st, ty = self.vars_tuple(result[1], env)
            has_ret = result[3]
            if isinstance(flow, tuple):          # ('ret', term)
                return '((%s, some %s), false)' % (st, flow[1]), ('tuple', [ty, 'bool'])
            go = 'true' if flow == 'cont' else 'false'
            if has_ret:
                return '((%s, none), %s)' % (st, go), ('tuple', [ty, 'bool'])
            return '(%s, %s)' % (st, go), ('tuple', [ty, 'bool'])
        return self.vars_tuple(result, env)

    def wrap_ret(self, term, env):
        """function-level result: `&mut [u64]` parameters are returned (in order) in front of the function's own result"""
        mr = getattr(self, 'mut_ret', None)
        if not mr:
            return '(some %s)' % term if getattr(self, 'panics', False) else term
        muts, unit = mr
        wd = getattr(self, 'window_done', {})
        wr = getattr(self, 'window_rest', {})

        def whole(n):
            t = '(%s ++ %s)' % (lean_ident(wd[n]), lean_ident(n)) if n in wd else lean_ident(n)
            return '(%s ++ %s)' % (t, lean_ident(wr[n])) if n in wr else t
        parts = [whole(n) for n in muts] + ([] if unit else [term])
        out = parts[0] if len(parts) == 1 else '(' + ', '.join(parts) + ')'
        return '(some %s)' % out if getattr(self, 'panics', False) else out

    def names_in(self, node, acc):
        if isinstance(node, tuple):
            if node and node[0] == 'path' and len(node[1]) == 1:
                acc.add(node[1][0])
            for x in node:
                self.names_in(x, acc)
        elif isinstance(node, list):
            for x in node:
                self.names_in(x, acc)
        return acc

    def fn_return_in(self, node):
        if isinstance(node, tuple):
            if node and node[0] == 'return':
                return True
            return any(self.fn_return_in(x) for x in node)
        if isinstance(node, list):
            return any(self.fn_return_in(x) for x in node)
        return False

    def panic_site_in(self, node):
        if isinstance(node, tuple):
            if node and (node[0] == 'assert' or self.panicking(node) or node[0] == 'try'):
                return True
            return any(self.panic_site_in(x) for x in node)
        if isinstance(node, list):
            return any(self.panic_site_in(x) for x in node)
        return False

    def mut_call(self, s):
        """a statement `let x = f(&mut a, …);` / `x = f(&mut a, …);` / `f(&mut a, …);` whose callee is an extern declared
        with updated arguments: -> (call node, [assignment targets of the `&mut` arguments], returns unit?)"""
        k = s[0]
        e = s[3] if k == 'let' else s[2] if k == 'assign' else s[1] if k == 'expr' else None
        if not (isinstance(e, tuple) and e and e[0] == 'call'):
            return None
        name = e[1][-1]
        ext = getattr(self, 'externs', {}).get(name)
        sig = self.fns.get(name)
        if (not ext or len(ext) < 3) and sig and len(sig) > 6 and sig[6]:
            # a translated function with `&mut [u64]` parameters: it returns their new contents in front of its result
            idxs, unit = sig[6]
            targets = []
            for i in idxs:
                a = e[2][i]
                if a[0] == 'refmut':
                    a = a[1]
                if not ((a[0] == 'path' and len(a[1]) == 1)
                        or (a[0] == 'index' and a[2][0] in ('range', 'rangeto', 'rangefrom') and a[1][0] == 'path' and len(a[1][1]) == 1)
                        or (a[0] == 'fieldname' and a[2] == 'limbs' and a[1][0] == 'path' and len(a[1][1]) == 1)):
                    raise TranslateError('the `&mut [u64]` argument of %s must be a variable' % name)
                targets.append(a)
            return e, targets, unit
        if not ext or len(ext) < 3:
            return None
        targets = []
        for i in ext[2]:
            a = e[2][i]
            if a[0] != 'refmut':
                raise TranslateError('argument %d of %s is expected to be `&mut`' % (i, name))
            targets.append(a[1])
        unit = len(ext) > 3 and ext[3]
        if unit and k != 'expr':
            raise TranslateError('%s returns nothing' % name)
        return e, targets, unit

    def foreach_pairs(self, pat, it):
        """`for <pat> in <iterator>` over slices/arrays, `zip`s of them, with `.iter()`, `.iter_mut()`, `.rev()`:
        -> ([(pattern variable, array variable)], reversed?)"""
        rev = False
        while it[0] == 'refmut' or (it[0] == 'mcall' and it[2] in ('iter', 'iter_mut', 'rev', 'into_iter') and not it[3]) \
                or (it[0] == 'mcall' and it[2] == 'chars' and not it[3] and getattr(self, 'str_params', None) is not None):
            if it[0] == 'mcall' and it[2] == 'rev':
                rev = not rev
            it = it[1]
        if isinstance(pat, str):
            pat = ('pid', pat)
        if pat[0] == 'pid':
            if it[0] == 'fieldname' and it[2] == 'limbs' and it[1][0] == 'path' and len(it[1][1]) == 1:
                it = it[1]                      # `for limb in &mut x.limbs`: the limbs of the Uint variable x
            if not (it[0] == 'path' and len(it[1]) == 1):
                raise TranslateError('unsupported iterator expression')
            return [(pat[1], it[1][0])], rev
        if pat[0] == 'ptuple' and len(pat[1]) == 2 and it[0] == 'call' and it[1] == ['zip'] and len(it[2]) == 2:
            a, ra = self.foreach_pairs(pat[1][0], it[2][0])
            b, rb = self.foreach_pairs(pat[1][1], it[2][1])
            if ra or rb:
                raise TranslateError('reversed iterator inside zip')
            return a + b, rev
        raise TranslateError('unsupported iterator pattern')

    def loop_stmt(self, s, rest, env, exp, result):
        """`while c { body }` / `loop { body }` over scalar state: a NON-recursive step definition
        `<fn>_step<k> ctx st : state × Bool` (new state, continue?) iterated by the fuelled `Rs.loop`; the state is the
        tuple of the variables assigned in the body (plus an `Option ret` slot when the body can `return`)."""
        _, cond, body = s
        S = [n for n in self.assigned(body[1], set()) if n in env]
        if not S:
            raise TranslateError('loop without state')
        has_ret = self.fn_return_in(body) or (getattr(self, 'panics', False) and self.panic_site_in(body))
        if has_ret and result not in (None, 'fn'):
            raise TranslateError('return inside a nested loop is not supported')
        used = self.names_in([cond, body], set())
        ctx = [n for n in env if n in used and n not in S]
        self.nloops = getattr(self, 'nloops', 0) + 1
        name = '%s_step%d' % (self.cur_fn, self.nloops)
        self.uses_fuel = True
        sc, _ = self.expr(cond, dict(env), 'bool')
        sbody, _ = self.stmts(body[1], dict(env), self.cur_rt, ('loop', S, self.cur_rt, has_ret))
        sty = self.lean_ty(('tuple', [env[n] for n in S]) if len(S) > 1 else env[S[0]])
        rty = self.lean_ty(self.cur_rt)
        full = '(%s) × Option (%s)' % (sty, rty) if has_ret else sty
        base = 'st.1' if has_ret else 'st'
        projs = ''
        for i, n in enumerate(S):
            proj = ('.2' * i + ('.1' if i < len(S) - 1 else '')) if len(S) > 1 else ''
            projs += '  let %s := %s%s\n' % (lean_ident(n), ('(%s)' % base) if has_ret else base, proj)
        params = ' '.join('(%s : %s)' % (lean_ident(n), self.lean_ty(env[n])) for n in ctx)
        args = ' '.join(lean_ident(n) for n in ctx)
        if getattr(self, 'uint_mode', False):
            params = '(BITS LIMBS : Nat) ' + params
            args = 'BITS LIMBS ' + args
        if getattr(self, 'const_generics', None):
            params = '(%s : Nat) ' % ' '.join(self.const_generics) + params
            args = ' '.join(self.const_generics) + ' ' + args
        if re.search(r'\bfuel\b', sbody):      # nested loop / fuelled callee inside the body
            params = '(fuel : Nat) ' + params
            args = 'fuel ' + args
        aux = ('def %s %s (st : %s) : (%s) × Bool :=\n%s  if %s then (\n  %s)\n  else (st, false)\n'
               % (name, params, full, full, projs, sc, sbody))
        self.aux.append(aux)
        self.tmp = getattr(self, 'tmp', 0) + 1
        t = 'sel%d' % self.tmp
        st0, _ = self.vars_tuple(S, env)
        if has_ret:
            st0 = '(%s, none)' % st0
        call = '(Rs.loop (%s %s) fuel %s)' % (name, args, st0)
        after = ''
        base = t + '.1' if has_ret else t
        for i, n in enumerate(S):
            proj = ('.2' * i + ('.1' if i < len(S) - 1 else '')) if len(S) > 1 else ''
            after += 'let %s := %s%s\n  ' % (lean_ident(n), ('(%s)' % base) if has_ret else base, proj)
        if has_ret and not rest and self.inner_rt != ('tuple', []):
            body_rest, tb = 'default', self.cur_rt     # `loop { … return … }`: nothing follows; only reached when the fuel runs out
        else:
            body_rest, tb = self.stmts(rest, env, exp, result)
        if has_ret:
            return ('let %s := %s\n  %s(%s.2).getD (\n  %s)' % (t, call, after, t, body_rest)), tb
        return 'let %s := %s\n  %s%s' % (t, call, after, body_rest), tb

    def stmts(self, stmts, env, exp, result):
        self.cur_env = env
        if not stmts:
            if result == 'fn':
                return self.wrap_ret('()', env), self.cur_rt
            if result is not None:
                return self.finish(result, env)
            return '()', ('tuple', [])
        s, rest = stmts[0], stmts[1:]
        k = s[0]
        if k == 'foreach':
            _, var, it, body = s
            pairs, rev = self.foreach_pairs(var, it)
            for _, ys in pairs:
                ity = env.get(ys)
                if not (ity in ('slice', 'mutslice', 'uint') or (isinstance(ity, tuple) and ity[0] == 'array')):
                    raise TranslateError('unsupported iterator expression')
            self.tmp = getattr(self, 'tmp', 0) + 1
            idx = 'it%d' % self.tmp
            elems = dict((v, ('index', ('path', [ys]), ('path', [idx]))) for v, ys in pairs)

            def subst(node):
                if isinstance(node, tuple):
                    if node and node[0] == 'path' and len(node[1]) == 1 and node[1][0] in elems:
                        return elems[node[1][0]]
                    return tuple(subst(x) for x in node)
                if isinstance(node, list):
                    return [subst(x) for x in node]
                return node
            nb = ('block', subst(body[1]))
            # a zip stops at the shortest operand
            hi = ('mcall', ('path', [pairs[0][1]]), 'count_', [])      # number of elements (of characters for a `str`)
            for _, ys in pairs[1:]:
                hi = ('minlen', hi, ('mcall', ('path', [ys]), 'count_', []))
            return self.stmts([('for', idx, ('lit', 0, 'usize'), hi, rev, nb)] + rest,
                              env, exp, result)
        if k == 'for':
            # for i in lo..hi { body }  ==>  let hi' = hi; let mut i = lo; while i < hi' { body; i += 1 }
            # for i in (lo..hi).rev()   ==>  let lo' = lo; let mut i = hi; while i > lo' { i -= 1; body }
            _, var, lo, hi, rev, body = s
            self.tmp = getattr(self, 'tmp', 0) + 1
            bound = 'bound%d' % self.tmp
            iv = ('path', [var])
            one = ('lit', 1, 'usize')
            if not rev:
                pre = [('let', ('pid', bound), 'usize', hi), ('let', ('pid', var), 'usize', lo)]
                step = ('assign', iv, ('bin', '+', iv, one))

                def cont(node):
                    # a `continue` of THIS loop still advances the index (it only skips the rest of the body)
                    if isinstance(node, tuple):
                        if node and node[0] == 'continue':
                            return ('expr_nosemi', ('if', ('bool', True), ('block', [step, ('continue',)]), None))
                        if node and node[0] in ('while', 'whilelet', 'for', 'foreach', 'closure'):
                            return node
                        return tuple(cont(x) for x in node)
                    if isinstance(node, list):
                        out = []
                        for x in node:
                            if isinstance(x, tuple) and x and x[0] == 'continue':
                                out += [step, x]
                            else:
                                out.append(cont(x))
                        return out
                    return node
                loop = ('while', ('bin', '<', iv, ('path', [bound])), ('block', cont(body[1]) + [step]))
            else:
                pre = [('let', ('pid', bound), 'usize', lo), ('let', ('pid', var), 'usize', hi)]
                loop = ('while', ('bin', '>', iv, ('path', [bound])), ('block', [('assign', iv, ('bin', '-', iv, one))] + body[1]))
            return self.stmts(pre + [loop] + rest, env, exp, result)
        if k == 'while':
            return self.loop_stmt(s, rest, env, exp, result)
        if k in ('break', 'continue'):
            if not (isinstance(result, tuple) and result[0] == 'loop'):
                raise TranslateError('%s outside a loop body' % k)
            return self.finish(result, env, 'brk' if k == 'break' else 'cont')
        if k == 'const':
            t = self.ty(s[2])
            if isinstance(t, tuple) and t[0] == 'array':
                term, _ = self.expr(s[3], env, t)
                self.consts[s[1]] = (term, ('array', self.ty(t[1]), None))
                self.tables[s[1]] = (term, t)
                self.consts[s[1]] = ('%s_%s' % (self.cur_fn, s[1]), ('array', self.ty(t[1]), None))
            else:
                term, tt = self.expr(s[3], env, t)
                self.consts[s[1]] = (term, t)
            return self.stmts(rest, env, exp, result)
        if k in ('expr', 'expr_nosemi', 'tail') and s[1][0] == 'match' and (
                rest or self.fn_return_in(s) or (isinstance(result, tuple) and result[0] == 'loop') or isinstance(result, list)
                or (getattr(self, 'panics', False) and self.any_panicking([b for _, b in s[1][2]]))):
            # `match scalar { lit => arm, …, _ => arm }` as a statement: `let t = scalar; if t == lit { arm } else if … else { arm }`
            _, scrut, arms = s[1]
            self.tmp = getattr(self, 'tmp', 0) + 1
            t = 'mt%d' % self.tmp
            se, te = self.expr(scrut, env, None)

            def blk(body):
                if body[0] == 'block':
                    b = body
                else:
                    b = ('block', [('tail', body)])
                # `unreachable_unchecked()` / an empty arm: nothing happens (Rust has proved the arm unreachable or empty)
                def unreachable(x):
                    return (isinstance(x, tuple) and x and x[0] in ('expr', 'tail', 'expr_nosemi') and x[1][0] == 'call'
                            and x[1][1][-1] == 'unreachable_unchecked')
                st = []
                for x in b[1]:
                    if x[0] in ('tail', 'expr_nosemi', 'expr') and x[1][0] == 'block':
                        st += [y for y in x[1][1] if not unreachable(y)]
                    elif not unreachable(x):
                        st.append(x)
                return ('block', st)
            chain = None
            for pat, body in reversed(arms):
                if pat[0] == 'mwild' or (pat[0] == 'mbind'):
                    if chain is not None:
                        raise TranslateError('irrefutable match arm before the last one')
                    chain = blk(body)
                    if pat[0] == 'mbind':
                        chain = ('block', [('let', ('pid', pat[1]), None, ('raw', t, te))] + chain[1])   # the arm's binding
                    continue
                if pat[0] not in ('mlit', 'mbool'):
                    # structured patterns (tuples, constructors, alternatives): the tests and bindings of `pat_walk`
                    conds_, binds_ = [], []
                    self.pat_walk(pat, t, te, conds_, binds_)
                    b_ = blk(body)
                    b_ = ('block', [('let', ('pid', n_), None, ('raw', term_, ty_)) for n_, term_, ty_ in binds_] + b_[1])
                    if not conds_:
                        if chain is not None:
                            raise TranslateError('irrefutable match arm before the last one')
                        chain = b_
                        continue
                    if chain is None:
                        chain = b_                  # last arm: the final else (Rust has checked exhaustiveness)
                        continue
                    chain = ('block', [('expr_nosemi', ('if', ('raw', '(' + ' && '.join(conds_) + ')', 'bool'), b_, chain))])
                    continue
                v = pat[1]
                if pat[0] == 'mlit':
                    if v < 0:
                        v += 2 ** self.w(te)
                    cond = ('bin', '==', ('path', [t]), ('lit', v, te))
                else:
                    cond = ('path', [t]) if v else ('un', '!', ('path', [t]))
                chain = ('block', [('expr_nosemi', ('if', cond, blk(body), chain))])
            env[t] = te
            body, tb = self.stmts(chain[1] + rest, env, exp, result)
            return 'let %s := %s\n  %s' % (t, se, body), tb
        if k in ('let', 'assign', 'return', 'tail', 'expr', 'expr_nosemi', 'assert') and getattr(self, 'panics', False):
            # calls that can panic (and `?`) are bound by their own `let` first, in evaluation order
            pre = []
            pos = {'let': 3, 'assign': 2}.get(k, 1)
            if k in ('expr', 'expr_nosemi', 'tail') and isinstance(s[1], tuple) and s[1] and s[1][0] == 'if':
                # an `if`: its condition is evaluated first
                pre0 = []

                def hoistc(e):
                    if isinstance(e, list):
                        return [hoistc(x) for x in e]
                    if not isinstance(e, tuple) or not e:
                        return e
                    if e[0] in ('closure', 'block', 'if', 'iflet', 'ifsome', 'match'):
                        return e
                    e = tuple(hoistc(x) for x in e)
                    if self.panicking(e) or e[0] == 'try':
                        self.tmp = getattr(self, 'tmp', 0) + 1
                        t = 'pv%d' % self.tmp
                        pre0.append(('let', ('pid', t), None, e))
                        return ('path', [t])
                    return e
                nc = hoistc(s[1][1])
                if pre0:
                    return self.stmts(pre0 + [(k, ('if', nc) + tuple(s[1][2:]))] + rest, env, exp, result)

            def hoist(e, root):
                if isinstance(e, list):
                    return [hoist(x, False) for x in e]
                if not isinstance(e, tuple) or not e:
                    return e
                if e[0] == 'match':
                    return ('match', hoist(e[1], False), e[2])      # the scrutinee is evaluated first
                if e[0] in ('closure', 'block', 'if', 'iflet', 'ifsome'):
                    return e
                e = tuple(hoist(x, False) for x in e)
                if not root and (self.panicking(e) or e[0] == 'try'):
                    self.tmp = getattr(self, 'tmp', 0) + 1
                    t = 'pv%d' % self.tmp
                    pre.append(('let', ('pid', t), None, e))
                    return ('path', [t])
                return e
            if s[pos] is not None:
                ne = hoist(s[pos], (k == 'let' and s[1][0] == 'pid') or self.mut_call(s) is not None)
                if pre:
                    return self.stmts(pre + [s[:pos] + (ne,) + s[pos + 1:]] + rest, env, exp, result)
        if k in ('tail', 'return') and s[1] is not None and s[1][0] == 'match' and any(b == ('panic',) for _, b in s[1][2]) \
                and (result == 'fn' or k == 'return') and not (isinstance(result, tuple) and result[0] == 'loop'):
            if not getattr(self, 'panics', False):
                raise TranslateError('panic arm in a function not recorded as panicking')
            sm, _ = self.match_ret(s[1], env, result)
            return sm, self.cur_rt
        if k in ('tail', 'expr', 'expr_nosemi') and s[1] == ('panic',):
            # `panic!(..)` / `unreachable!()` as a statement: the function panics here
            if not getattr(self, 'panics', False):
                raise TranslateError('panic in a function not recorded as panicking')
            return self.panic_value(result, env), self.cur_rt
        if k == 'assert':
            if not getattr(self, 'panics', False):
                raise TranslateError('assert! in a function not recorded as panicking')
            sc, _ = self.expr(s[1], env, 'bool')
            pv_ = self.panic_value(result, env)
            body, tb = self.stmts(rest, env, exp, result)
            return 'if %s then (\n  %s)\n  else %s' % (sc, body, pv_), tb
        if k == 'let' and s[1][0] == 'pid' and s[3][0] == 'try':
            # `let x = opt?;` in a function returning `Option`: `None` is returned
            so, to = self.expr(s[3][1], env, None)
            if (isinstance(to, tuple) and to[0] == 'result' and not (isinstance(result, tuple) and result[0] == 'loop')
                    and isinstance(self.inner_rt, tuple) and self.inner_rt[0] == 'result'
                    and self.lean_ty(self.inner_rt[2]) == self.lean_ty(to[2])):
                # `let x = res?;` in a function returning `Result` with the same error type: the error is returned
                env[s[1][1]] = to[1]
                body, tb = self.stmts(rest, env, exp, result)
                return 'match %s with\n  | Except.error e_ => %s\n  | Except.ok %s => (\n  %s)' % (
                    so, self.wrap_ret('(Except.error e_)', env), lean_ident(s[1][1]), body), tb
            if (isinstance(to, tuple) and to[0] == 'result' and not (isinstance(result, tuple) and result[0] == 'loop')
                    and isinstance(self.inner_rt, tuple) and self.inner_rt[0] == 'result'
                    and isinstance(to[2], tuple) and to[2][0] == 'enum'
                    and isinstance(self.inner_rt[2], tuple) and self.inner_rt[2][0] == 'enum'):
                # `let x = res?;` where the error is converted by `From<E> for E'`: E' must have exactly one variant whose only
                # field is an `E` (the conversion the source's `impl From` performs: checked to exist in the item's file)
                src_e, dst_e = to[2], self.inner_rt[2]
                tp_, fts_ = self.enum_fields[dst_e[1]]
                cands = [i for i, f in enumerate(fts_) if len(f) == 1 and f[0].strip() == src_e[1]]
                if len(cands) == 1 and re.search(r'impl\s+From<%s>\s+for\s+%s\b' % (src_e[1], dst_e[1]), getattr(self, 'file_text', '')):
                    k_ = 1 + len(self.enum_slots(src_e))
                    comps = ['(e_)%s' % ('.2' * i_ + ('.1' if i_ < k_ - 1 else '')) for i_ in range(k_)]
                    pad = ['0'] * (len(self.enum_slots(dst_e)) - k_)
                    conv = '(' + ', '.join([str(cands[0])] + comps + pad) + ')'
                    env[s[1][1]] = to[1]
                    body, tb = self.stmts(rest, env, exp, result)
                    return 'match %s with\n  | Except.error e_ => %s\n  | Except.ok %s => (\n  %s)' % (
                        so, self.wrap_ret('(Except.error %s)' % conv, env), lean_ident(s[1][1]), body), tb
            if not (isinstance(to, tuple) and to[0] == 'option') or (isinstance(result, tuple) and result[0] == 'loop'):
                raise TranslateError('unsupported use of `?`')
            env[s[1][1]] = to[1]
            body, tb = self.stmts(rest, env, exp, result)
            return 'match %s with\n  | none => %s\n  | some %s => (\n  %s)' % (so, self.wrap_ret('none', env), lean_ident(s[1][1]), body), tb
        if k == 'let' and s[1][0] == 'pid' and self.panicking(s[3]) and not (s[3][0] == 'mcall' and s[3][2] in ('expect', 'unwrap')) \
                and self.mut_call(s) is None:
            # `let x = f(…);` where `f` can panic
            so, to = self.expr(s[3], env, None)
            pv_ = self.panic_value(result, env)
            env[s[1][1]] = to[1] if isinstance(to, tuple) and to[0] == 'option' else to
            body, tb = self.stmts(rest, env, exp, result)
            return 'match %s with\n  | none => %s\n  | some %s => (\n  %s)' % (so, pv_, lean_ident(s[1][1]), body), tb
        if k == 'let' and s[1][0] == 'pid' and s[3][0] == 'mcall' and s[3][2] in ('expect', 'unwrap'):
            # `let x = opt.expect("…");`: `None` panics
            if not self.panics:
                raise TranslateError('panic site in a function not recorded as panicking')
            so, to = self.expr(s[3][1], env, None)
            if not (isinstance(to, tuple) and to[0] == 'option'):
                raise TranslateError('expect / unwrap of a non-Option')
            pv_ = self.panic_value(result, env)
            env[s[1][1]] = to[1] or 'usize'
            body, tb = self.stmts(rest, env, exp, result)
            return 'match %s with\n  | none => %s\n  | some %s => (\n  %s)' % (so, pv_, lean_ident(s[1][1]), body), tb
        if k in ('expr', 'expr_nosemi', 'tail') and s[1][0] == 'ifsome':
            _, var, scrut, a, b = s[1]
            if b is None or not self.ends_with_return(b) or self.has_return(a) or b[1][-1][0] != 'return':
                # general form: bind the option, then an ordinary `if` on `is_some()` whose first branch starts with the binding
                self.tmp = getattr(self, 'tmp', 0) + 1
                t = 'opt%d' % self.tmp
                so, to = self.expr(scrut, env, None)
                if not (isinstance(to, tuple) and to[0] == 'option'):
                    raise TranslateError('`if let Some(..)` on a non-Option')
                env[t] = to
                tp = ('path', [t])
                newif = ('if', ('issome', tp), ('block', [('let', ('pid', var), None, ('getsome', tp))] + a[1]),
                         b if b is not None else None)
                body, tb = self.stmts([('expr_nosemi', newif)] + rest, env, exp, result)
                return 'let %s := %s\n  %s' % (t, so, body), tb
            so, to = self.expr(scrut, env, None)
            if not (isinstance(to, tuple) and to[0] == 'option'):
                raise TranslateError('`if let Some(..)` on a non-Option')
            ea = dict(env)
            ea[var] = to[1] or 'usize'
            sa, ta = self.stmts(a[1] + rest, ea, exp, result)
            sb, _ = self.stmts(b[1], dict(env), exp, result)
            return 'match %s with\n  | some %s => (\n  %s)\n  | none => (\n  %s)' % (so, lean_ident(var), sa, sb), ta
        if k in ('return', 'tail') and s[1] is not None and self.mut_call(('expr', s[1])) is not None \
                and not self.mut_call(('expr', s[1]))[2]:
            # `return f(xs, …)` / a trailing `f(xs, …)` where `f` updates `xs`: bind the result first
            self.tmp = getattr(self, 'tmp', 0) + 1
            t = 'ret%d' % self.tmp
            return self.stmts([('let', ('pid', t), None, s[1]), (k, ('path', [t]))] + rest, env, exp, result)
        mc = self.mut_call(s)
        if mc is not None:
            call, targets, unit = mc
            sc, tc = self.expr(call, env, None)
            self.tmp = getattr(self, 'tmp', 0) + 1
            t = 'sel%d' % self.tmp
            csig = self.fns.get(call[1][-1], ()) if call[0] == 'call' else ()
            callee_panics = len(csig) > 7 and csig[7]
            if callee_panics:
                if not self.panics:
                    raise TranslateError('call of a panicking function in a function not recorded as panicking')
                pv_ = self.panic_value(result, env)
                tc = tc[1] if isinstance(tc, tuple) and tc[0] == 'option' else tc
            lines = '' if callee_panics else 'let %s := %s\n  ' % (t, sc)
            n = len(targets) + (0 if unit else 1)
            for i, tg in enumerate(targets):
                proj = ('.2' * i + ('.1' if i < n - 1 else '')) if n > 1 else ''
                lines += self.assign_lines(tg, t + proj, None, env)
            if not unit:
                i = len(targets)
                proj = '.2' * i
                rt = tc[1][-1] if isinstance(tc, tuple) and tc[0] == 'tuple' else None
                if k == 'let':
                    self.bind(s[1], rt, env)
                    lines += 'let %s := %s%s\n  ' % (self.pat(s[1]), t, proj)
                elif k == 'assign':
                    lines += self.assign_lines(s[1], t + proj, rt, env)
            body, tb = self.stmts(rest, env, exp, result)
            if callee_panics:
                return 'match %s with\n  | none => %s\n  | some %s => (\n  %s%s)' % (sc, pv_, t, lines, body), tb
            return lines + body, tb
        if k == 'let' and s[3] == ('uninit',):
            # declared here, assigned in every branch of the `if` that follows (see `desugar`); its type is that of the value
            env[s[1][1]] = None
            return self.stmts(rest, env, exp, result)
        if k == 'let':
            se, te = self.expr(s[3], env, self.ty(s[2]) if s[2] else None)
            if s[2]:
                te = self.ty(s[2])
            if s[3] == ('path', ['None']) and not s[2] and s[1][0] == 'pid':
                # `let mut x = None;`: the type is that of the `Some(..)` assigned to it later
                def find_some(node):
                    if isinstance(node, list):
                        for x in node:
                            r = find_some(x)
                            if r:
                                return r
                    elif isinstance(node, tuple) and node:
                        if (node[0] == 'assign' and node[1] == ('path', [s[1][1]]) and node[2][0] == 'call'
                                and node[2][1] == ['Some'] and node[2][2][0][0] == 'call' and len(node[2][2][0][1]) == 2
                                and node[2][2][0][1][0] in getattr(self, 'enums', {})):
                            return ('option', ('enum', node[2][2][0][1][0], []))
                        for x in node:
                            r = find_some(x)
                            if r:
                                return r
                    return None
                inf = find_some(rest)
                if inf:
                    te = inf
            self.bind(s[1], te, env)
            body, tb = self.stmts(rest, env, exp, result)
            if s[1][0] == 'ptuple' and all(q[0] == 'pid' for q in s[1][1]):
                # tuple pattern: bind to a temporary and project (no pattern-matching `let`: unfolding the
                # definition must never have to evaluate the right-hand side to a constructor)
                self.tmp = getattr(self, 'tmp', 0) + 1
                t = 'sel%d' % self.tmp
                names = [q[1] for q in s[1][1]]
                projs = ''
                for i, n in enumerate(names):
                    if n == '_':
                        continue
                    proj = '.2' * i + ('.1' if i < len(names) - 1 else '')
                    projs += 'let %s := %s%s\n  ' % (lean_ident(n), t, proj)
                return 'let %s := %s\n  %s%s' % (t, se, projs, body), tb
            return 'let %s := %s\n  %s' % (self.pat(s[1]), se, body), tb
        if k == 'assign':
            hint = env.get(s[1][1][0]) if s[1][0] == 'path' and len(s[1][1]) == 1 else None
            if s[1][0] == 'index':
                hint = 'u64'
            se, te = self.expr(s[2], env, hint)
            if s[1][0] == 'path' and len(s[1][1]) == 1 and s[1][1][0] in env and env[s[1][1][0]] is None:
                env[s[1][1][0]] = te
            if s[1][0] == 'tuple' and isinstance(te, tuple) and te[0] == 'tuple':
                for x, tx in zip(s[1][1], te[1]):
                    if x[0] == 'path' and len(x[1]) == 1 and x[1][0] in env and env[x[1][0]] is None:
                        env[x[1][0]] = tx
            lines = self.assign_lines(s[1], se, te, env)
            body, tb = self.stmts(rest, env, exp, result)
            return lines + body, tb
        if k == 'return':
            inner = self.inner_rt
            se, te = (self.expr(s[1], env, inner) if s[1] is not None else ('()', ('tuple', [])))
            if isinstance(result, tuple) and result[0] == 'loop':
                return self.finish(result, env, ('ret', self.wrap_ret(se, env)))
            return self.wrap_ret(se, env), self.cur_rt
        if k in ('expr', 'expr_nosemi', 'tail') and s[1][0] == 'if':
            _, c, a, b = s[1]
            sc, _ = self.expr(c, env, 'bool')
            if self.has_return(a) or (b and self.has_return(b)):
                # early return: the rest of the block goes into the non-returning branch(es)
                def branch(blk):
                    if blk is None:
                        return self.stmts(rest, dict(env), exp, result)
                    if self.ends_with_return(blk):
                        return self.stmts(blk[1], dict(env), exp, result)
                    return self.stmts(blk[1] + rest, dict(env), exp, result)
                sa, ta = branch(a)
                sb, tb = branch(b)
                return 'if %s then (\n  %s)\n  else (\n  %s)' % (sc, sa, sb), ta
            if not rest and k in ('tail', 'expr_nosemi') and result is None:
                return self.if_expr(s[1], env, exp)
            if not rest and k in ('tail', 'expr_nosemi') and result == 'fn' and b is not None:
                sa, ta = self.stmts(a[1], dict(env), exp, 'fn')
                sb, tb = self.stmts(b[1], dict(env), exp, 'fn')
                return '(if %s then (\n  %s)\n  else (\n  %s))' % (sc, sa, sb), self.cur_rt
            av = self.assigned([s], set())
            if not av:
                # nothing assigned: only acceptable when nothing is left in the branches (hooks and debug assertions are
                # removed by the parser); anything else would be an effect the translation loses
                def empty(blk):
                    return blk is None or all(x[0] in ('expr', 'expr_nosemi', 'tail') and x[1][0] in ('if', 'block')
                                              and all(empty(y) for y in ((x[1][2], x[1][3]) if x[1][0] == 'if' else (x[1],)))
                                              for x in blk[1])
                if not (empty(a) and empty(b)):
                    raise TranslateError('if-statement whose effect is not understood')
                return self.stmts(rest, env, exp, result)
            sa, tya = self.stmts(a[1], dict(env), None, av)
            sb, _ = self.stmts(b[1], dict(env), None, av) if b else self.vars_tuple(av, env)
            for n_, t_ in zip(av, tya[1] if len(av) > 1 else [tya]):
                if env.get(n_) is None:
                    env[n_] = t_
            body, tb = self.stmts(rest, env, exp, result)
            if len(av) == 1:
                return 'let %s := if %s then (\n  %s)\n  else (\n  %s)\n  %s' % (lean_ident(av[0]), sc, sa, sb, body), tb
            # several assigned variables: bind the tuple to a temporary and project (no pattern-matching `let`,
            # so that unfolding the definition never has to evaluate the condition)
            self.tmp = getattr(self, 'tmp', 0) + 1
            t = 'sel%d' % self.tmp
            projs = ''
            for i, n in enumerate(av):
                proj = '.2' * i + ('.1' if i < len(av) - 1 else '')
                projs += 'let %s := %s%s\n  ' % (lean_ident(n), t, proj)
            return 'let %s := if %s then (\n  %s)\n  else (\n  %s)\n  %s%s' % (t, sc, sa, sb, projs, body), tb
        if k in ('tail', 'expr_nosemi'):
            if rest:
                if s[1][0] == 'block' and not s[1][1]:
                    return self.stmts(rest, env, exp, result)
                raise TranslateError('expression statement with untranslated effect: %r' % (s[1][:2],))
            if result == 'fn':
                se, te = self.expr(s[1], env, self.inner_rt)
                return self.wrap_ret(se, env), self.cur_rt
            if result is not None:
                # the value of a trailing expression is discarded here (loop body / assigning branch): only an empty block may be
                if not (s[1][0] == 'block' and not s[1][1]):
                    raise TranslateError('trailing expression with untranslated effect: %r' % (s[1][:2],))
                return self.finish(result, env)
            return self.expr(s[1], env, exp)
        if k == 'expr' and s[1][0] == 'mcall' and s[1][2] == 'reverse' and not s[1][3]:
            tg = s[1][1]
            base = tg[1] if (tg[0] == 'fieldname' and tg[2] == 'limbs') else tg
            if base[0] == 'path' and len(base[1]) == 1 and env.get(base[1][0]) in ('uint', 'mutslice'):
                body, tb = self.stmts(rest, env, exp, result)
                n = lean_ident(base[1][0])
                return 'let %s := (%s).reverse\n  %s' % (n, n, body), tb
        if k == 'expr' and s[1][0] == 'mcall' and s[1][2] in ('push', 'pop') and s[1][1][0] == 'path' and len(s[1][1][1]) == 1 \
                and env.get(s[1][1][1][0]) in ('slice', 'mutslice'):
            # `v.push(x);` / `v.pop();` on an owned `Vec<u64>`
            n_ = lean_ident(s[1][1][1][0])
            if s[1][2] == 'push':
                sx, _ = self.expr(s[1][3][0], env, 'u64')
                line = 'let %s := (%s ++ [%s])\n  ' % (n_, n_, sx)
            else:
                line = 'let %s := (%s).dropLast\n  ' % (n_, n_)
            body, tb = self.stmts(rest, env, exp, result)
            return line + body, tb
        if k == 'expr' and s[1][0] == 'mcall' and s[1][2] == 'truncate' and len(s[1][3]) == 1 and s[1][1][0] == 'path' \
                and len(s[1][1][1]) == 1 and env.get(s[1][1][1][0]) in ('slice', 'mutslice'):
            # `v.truncate(n);` on a `Vec`: keeps the first n elements (no effect when n >= len) = List.take
            n_ = lean_ident(s[1][1][1][0])
            sx, _ = self.expr(s[1][3][0], env, 'usize')
            body, tb = self.stmts(rest, env, exp, result)
            return 'let %s := (%s).take %s\n  ' % (n_, n_, sx) + body, tb
        if k == 'expr' and s[1][0] == 'mcall' and s[1][2] in ('fill', 'copy_from_slice', 'copy_within') \
                and self.slice_place(s[1][1], env):
            # whole-slice updates of a `&mut [u64]` (or of a sub-slice of one)
            tg = s[1][1]
            cur, _ = self.expr(tg, env)
            m, args = s[1][2], s[1][3]
            if m == 'fill' and len(args) == 1:
                v_, _ = self.expr(args[0], env, 'u64')
                term = '(List.replicate (%s).length %s)' % (cur, v_)
            elif m == 'copy_from_slice' and len(args) == 1:
                # panics unless the lengths agree; the value written is the source
                term, _ = self.expr(args[0], env)
            elif m == 'copy_within' and len(args) == 2 and args[0][0] == 'rangefrom' and args[1] == ('lit', 0, None):
                k_, _ = self.expr(args[0][1], env, 'usize')
                term = '(%s.drop %s ++ %s.drop ((%s).length - %s))' % (cur, k_, cur, cur, k_)
            else:
                raise TranslateError('unsupported form of %s' % m)
            lines = self.assign_lines(tg, term, 'slice', env)
            body, tb = self.stmts(rest, env, exp, result)
            return lines + body, tb
        if k == 'expr':
            e = s[1]
            if (e[0] == 'mcall' and e[1][0] == 'path' and len(e[1][1]) == 1 and env.get(e[1][1][0]) == 'uint'
                    and ('Uint::' + e[2]) in self.fns and len(self.fns['Uint::' + e[2]]) > 5 and self.fns['Uint::' + e[2]][5]):
                # `x.method(args);` with `&mut self`: rebind x to the returned new value
                sig = self.fns['Uint::' + e[2]]
                if not (isinstance(sig[2], str) and sig[2] == 'uint'):
                    raise TranslateError('statement call of a `&mut self` method that also returns a value')
                se, _ = self.mcall(e, env, None)
                body, tb = self.stmts(rest, env, exp, result)
                return 'let %s := %s\n  %s' % (lean_ident(e[1][1][0]), se, body), tb
            # any other expression statement could have an effect the translation would lose
            raise TranslateError('expression statement with untranslated effect: %r' % (e[:3],))
        raise TranslateError('unsupported statement %r' % (k,))

    def ends_with_return(self, blk):
        return bool(blk[1]) and blk[1][-1][0] in ('return', 'break', 'continue')

    def vars_tuple(self, names, env):
        if len(names) == 1:
            return lean_ident(names[0]), env[names[0]]
        return '(' + ', '.join(lean_ident(n) for n in names) + ')', ('tuple', [env[n] for n in names])

    def if_expr(self, e, env, exp):
        _, c, a, b = e
        sc, _ = self.expr(c, env, 'bool')
        sa, ta = self.block(a, env, exp)
        if b is None:
            raise TranslateError('if-expression without else')
        sb, tb = self.block(b, env, ta if exp is None else exp)
        return '(if %s then (\n  %s)\n  else (\n  %s))' % (sc, sa, sb), ta

    # function ----------------------------------------------------------------------------------
    # ---- slices that are re-borrowed (`lhs = rest`, `lhs = &mut lhs[1..]`, `split_at_mut`) ------------------------------------
    # A `&mut [u64]` parameter whose variable is re-pointed at a suffix of itself is modelled as a window: the variable holds
    # the current window and a hidden `<name>_done` holds the limbs of the caller's buffer in front of it (final buffer =
    # done ++ window). `while let` / `if let` with slice patterns become ordinary conditions plus `let rest = suffix/prefix`.
    def window_rewrite(self, body, mutparams):
        self.window_done = {}

        def suffix_of(e, prov):
            """(variable, k) when e denotes the suffix `var[k..]` of a window variable"""
            if e[0] == 'refmut':
                e = e[1]
            if e[0] == 'path' and len(e[1]) == 1 and e[1][0] in prov:
                return prov[e[1][0]]
            if e[0] == 'index' and e[2][0] == 'rangefrom' and e[1][0] == 'path' and len(e[1][1]) == 1:
                return (e[1][1][0], e[2][1])
            return None

        def rw_block(blk, prov, shadow=frozenset()):
            if blk is None:
                return None
            out = []
            prov = dict(prov)
            splits = []
            for st in blk[1]:
                k = st[0]
                if k == 'whilelet':
                    _, pat, scrut, b = st
                    if pat[0] == 'front':
                        cond = ('headis', scrut, pat[1])
                        bind = ('let', ('pid', pat[2]), None, ('drop', scrut, ('lit', 1, 'usize')))
                        p2 = dict(prov)
                        if scrut[0] == 'path' and len(scrut[1]) == 1:
                            p2[pat[2]] = (scrut[1][0], ('lit', 1, 'usize'))
                    else:
                        cond = ('lastis', scrut, pat[1])
                        bind = ('let', ('pid', pat[2]), None, ('droplast', scrut))
                        p2 = dict(prov)
                    nb = rw_block(b, p2, shadow)
                    out.append(('while', cond, ('block', [bind] + nb[1])))
                    continue
                if k in ('expr', 'expr_nosemi', 'tail') and st[1][0] == 'iflet':
                    _, pat, scrut, a, b = st[1]
                    if pat[0] != 'front':
                        raise TranslateError('if let with a back pattern')
                    cond = ('headis', scrut, pat[1])
                    bind = ('let', ('pid', pat[2]), None, ('drop', scrut, ('lit', 1, 'usize')))
                    p2 = dict(prov)
                    if scrut[0] == 'path' and len(scrut[1]) == 1:
                        p2[pat[2]] = (scrut[1][0], ('lit', 1, 'usize'))
                    na = rw_block(a, p2, shadow)
                    out.append(('expr_nosemi', ('if', cond, ('block', [bind] + na[1]), rw_block(b, prov, shadow))))
                    continue
                if k == 'assign' and st[1][0] == 'path' and len(st[1][1]) == 1 and st[1][1][0] in mutparams \
                        and st[1][1][0] not in shadow \
                        and not (st[2][0] == 'index' and st[2][1] == st[1] and st[2][2][0] == 'rangeto'
                                 and st[1][1][0] in getattr(self, 'window_rest', {})):
                    v = st[1][1][0]
                    sf = suffix_of(st[2], prov)
                    if sf is None or sf[0] != v:
                        raise TranslateError('re-borrow of %s that is not a suffix of itself' % v)
                    done = v + '_done'
                    self.window_done[v] = done
                    out.append(('assign', ('path', [done]), ('concat', ('path', [done]), ('index', ('path', [v]), ('rangeto', sf[1])))))
                    out.append(('assign', ('path', [v]), ('drop', ('path', [v]), sf[1])))
                    continue
                if k == 'let' and st[1][0] == 'ptuple' and st[3][0] == 'mcall' and st[3][2] == 'split_at_mut' \
                        and st[3][1][0] == 'path' and len(st[3][1][1]) == 1 and len(st[1][1]) == 2:
                    v = st[3][1][1][0]
                    n = st[3][3][0]
                    t, r = st[1][1][0][1], st[1][1][1][1]
                    out.append(('let', ('pid', t), None, ('index', ('path', [v]), ('rangeto', n))))
                    out.append(('let', ('pid', r), None, ('drop', ('path', [v]), n)))
                    splits.append((v, t, r))
                    continue
                # recurse into nested blocks
                out.append(rw_stmt(st, prov, shadow))
            if splits:
                def jumps(node):
                    if isinstance(node, tuple):
                        return bool(node) and (node[0] in ('break', 'continue', 'return') or any(jumps(x) for x in node))
                    return isinstance(node, list) and any(jumps(x) for x in node)
                first = min(i for i, st in enumerate(blk[1]) if st[0] == 'let' and st[3][0] == 'mcall' and st[3][2] == 'split_at_mut')
                tail_jump = blk[1][-1][0] in ('break', 'continue', 'return') and (blk[1][-1][0] != 'return' or blk[1][-1][1] is None)
                if jumps(blk[1][first:-1] if tail_jump else blk[1][first:]):
                    raise TranslateError('break / continue / return while the halves of split_at_mut are live')
                if tail_jump:
                    # the block ends by jumping: the halves' contents are written back just before
                    last = out.pop()
                    for v, t, r in splits:
                        out.append(('assign', ('path', [v]), ('concat', ('path', [t]), ('path', [r]))))
                    out.append(last)
                    return ('block', out)
            for v, t, r in splits:
                # the two halves go out of scope here: their contents are the buffer's
                out.append(('assign', ('path', [v]), ('concat', ('path', [t]), ('path', [r]))))
            return ('block', out)

        def rw_stmt(st, prov, shadow):
            k = st[0]
            if k in ('expr', 'expr_nosemi', 'tail') and st[1][0] == 'if':
                _, c, a, b = st[1]
                return (k, ('if', c, rw_block(a, prov, shadow), rw_block(b, prov, shadow)))
            if k == 'while':
                return ('while', st[1], rw_block(st[2], prov, shadow))
            if k == 'foreach':
                names = set(self.pat_names(st[1] if not isinstance(st[1], str) else ('pid', st[1])))
                return ('foreach', st[1], st[2], rw_block(st[3], prov, shadow | names))
            if k == 'for':
                return st[:5] + (rw_block(st[5], prov, shadow | {st[1]}),)
            return st
        nb = rw_block(body, {})
        if self.window_done:
            pre = [('let', ('pid', d), None, ('nil',)) for d in self.window_done.values()]
            nb = ('block', pre + nb[1])
        return nb

    # ---- source-level rewrites done before translation ---------------------------------------------------------------------
    def desugar(self, blk, mutparams=()):
        """meaning-preserving rewrites of the parsed body:
        * `unsafe { xs.get_unchecked(i) }` / `get_unchecked_mut(i)` are `xs[i]` (the reference is read or written at once);
          `let p = unsafe { xs.get_unchecked_mut(i) };` makes `p` a name for the place `xs[i]` in the rest of the block (the
          borrow checker guarantees nothing else touches `xs` while `p` is live; `i` must be a literal);
          a shared `let p = xs.get_unchecked(i);` reads the element there and then (no write can intervene while it is live);
        * `xs.get(i).copied().unwrap_or_default()` is `xs[i]` or 0 beyond the end;
        * `let pat = if c { …effects…; e1 } else { …effects…; e2 };` becomes `let t; if c { …; t = e1 } else { …; t = e2 }
          let pat = t;` (and the same for a block-valued `let`) so that updates of slices inside the branches are kept."""
        cnt = [0]

        def strip(e):
            while isinstance(e, tuple) and e and e[0] == 'block' and len(e[1]) == 1 and e[1][0][0] == 'tail':
                e = e[1][0][1]
            return e

        def unchecked(e):
            e = strip(e)
            if isinstance(e, tuple) and e and e[0] == 'mcall' and e[2] in ('get_unchecked', 'get_unchecked_mut') and len(e[3]) == 1:
                return e
            return None

        def ex(e):
            if isinstance(e, list):
                return [ex(x) for x in e]
            if not isinstance(e, tuple) or not e:
                return e
            if e[0] == 'block':
                u = unchecked(e)
                if u is not None:
                    return ex(u)
                return ('block', stmts(e[1]))
            e = tuple(ex(x) for x in e)
            if e[0] == 'mcall' and e[2] in ('get_unchecked', 'get_unchecked_mut') and len(e[3]) == 1:
                return ('index', e[1], e[3][0])
            if (e[0] == 'mcall' and e[2] == 'unwrap_or_default' and not e[3] and e[1][0] == 'mcall' and e[1][2] == 'copied'
                    and e[1][1][0] == 'mcall' and e[1][1][2] == 'get' and len(e[1][1][3]) == 1):
                return ('getd', e[1][1][1], e[1][1][3][0])
            return e

        def subst(node, name, repl):
            if isinstance(node, list):
                return [subst(x, name, repl) for x in node]
            if isinstance(node, tuple):
                if node and node[0] == 'path' and node[1] == [name]:
                    return repl
                if node and node[0] == 'let' and name in self.pat_names(node[1]):
                    raise TranslateError('a place alias is shadowed')
                return tuple(subst(x, name, repl) for x in node)
            return node

        def effectful(node):
            if isinstance(node, list):
                return any(effectful(x) for x in node)
            if isinstance(node, tuple):
                return bool(node) and (node[0] in ('assign', 'refmut', 'return', 'continue', 'break')
                                       or (node[0] == 'mcall' and node[2] == 'split_at'
                                           and getattr(self, 'str_params', None) == 'panics')     # can panic: leaves the function
                                       or any(effectful(x) for x in node))
            return False

        def pat_expr(p):
            return ('path', [p[1]]) if p[0] == 'pid' else ('tuple', [pat_expr(q) for q in p[1]])

        def into(blk, target):
            """the block with its value assigned to `target` instead of being its value"""
            st = list(blk[1])
            if not st or st[-1][0] not in ('tail', 'expr_nosemi'):
                raise TranslateError('value block without a tail expression')
            last = st[-1][1]
            if last[0] == 'if' and last[3] is not None:
                return ('block', st[:-1] + [('expr_nosemi', ('if', last[1], into(last[2], target), into(last[3], target)))])
            if last[0] == 'match':
                arms = []
                for p_, b_ in last[2]:
                    if b_[0] == 'block' and b_[1] and b_[1][-1][0] in ('return', 'continue', 'break'):
                        arms.append((p_, b_))                         # the arm leaves: nothing is assigned
                    elif b_[0] == 'block':
                        arms.append((p_, into(b_, target)))
                    else:
                        arms.append((p_, ('block', [('assign', target, b_)])))
                return ('block', st[:-1] + [('expr_nosemi', ('match', last[1], arms))])
            return ('block', st[:-1] + [('assign', target, last)])

        def prefix_of(e, v):
            """`&mut v[..hi]` -> hi"""
            if isinstance(e, tuple) and e and e[0] == 'refmut':
                e = e[1]
            e = strip(e)
            if isinstance(e, tuple) and e and e[0] == 'refmut':
                e = e[1]
            if (isinstance(e, tuple) and e and e[0] == 'index' and e[1] == ('path', [v]) and e[2][0] == 'rangeto'):
                return e[2][1]
            return None

        def narrow(v, hi):
            """`let v = &mut v[..hi];`: from here on `v` is the prefix; the limbs behind it are kept in `v_rest`"""
            rest = v + '_rest'
            self.window_rest[v] = rest
            return [('assign', ('path', [rest]), ('concat', ('drop', ('path', [v]), hi), ('path', [rest]))),
                    ('assign', ('path', [v]), ('index', ('path', [v]), ('rangeto', hi)))]

        iters = {}

        def stmts(lst):
            out = []
            lst = list(lst)
            while lst:
                st = lst.pop(0)
                if (st[0] == 'let' and st[1][0] == 'pid' and isinstance(st[3], tuple) and st[3][:1] == ('mcall',)
                        and st[3][2] == 'filter_map' and len(st[3][3]) == 1 and st[3][3][0][0] == 'closure'
                        and len(st[3][3][0][1]) == 1 and st[3][1][:1] == ('mcall',) and st[3][1][2] == 'chars'):
                    # `let d = s.chars().filter_map(|c| BODY);` — evaluated eagerly, in order: `d` starts empty; for every
                    # character the closure body runs with `return None` = `continue`, `return Some(e)` / a final `Some(e)` =
                    # `d.push(e)`. (The iterator is lazy in the source; see DESIGN §0.2 "eager filter_map" for why the
                    # difference cannot be observed at the one call that consumes it.)
                    dname, clo = st[1][1], st[3][3][0]
                    cvar = clo[1][0]

                    def fm(node, top):
                        # rewrite the statements of the closure body
                        if node[0] != 'block':
                            node = ('block', [('tail', node)])
                        res = []
                        for q in node[1]:
                            if q[0] == 'return' and q[1] == ('path', ['None']):
                                res.append(('continue',))
                            elif q[0] == 'return' and q[1] is not None and q[1][0] == 'call' and q[1][1] == ['Some']:
                                res += [('expr', ('mcall', ('path', [dname]), 'push', [q[1][2][0]])), ('continue',)]
                            elif q[0] == 'return':
                                raise TranslateError('closure of filter_map returns something else than None / Some(..)')
                            elif top and q[0] == 'tail' and q[1][0] == 'call' and q[1][1] == ['Some']:
                                res.append(('expr', ('mcall', ('path', [dname]), 'push', [q[1][2][0]])))
                            elif top and q[0] == 'tail' and q[1] == ('path', ['None']):
                                pass
                            elif top and q[0] == 'tail':
                                raise TranslateError('closure of filter_map ends in something else than None / Some(..)')
                            else:
                                res.append(fmx(q))
                        return ('block', res)

                    def fmx(node):
                        if isinstance(node, list):
                            return [fmx(x) for x in node]
                        if isinstance(node, tuple) and node:
                            if node[0] == 'closure':
                                return node
                            if node[0] == 'block':
                                return fm(node, False)
                            return tuple(fmx(x) for x in node)
                        return node
                    body_ = fm(clo[2], True)
                    lst = [('let', ('pid', dname), ('generic', 'Vec', ['u64']), ('nil',)),
                           ('foreach', cvar, st[3][1][1], body_)] + lst
                    continue
                if st[0] in ('tail', 'return') and isinstance(st[1], tuple) and st[1] and st[1][0] == 'match' and len(st[1][2]) == 2 \
                        and all(p_[0] == 'mctor' and p_[1] in (['Ok'], ['Err']) and len(p_[2]) == 1
                                and p_[2][0][0] in ('mbind', 'mwild') for p_, _ in st[1][2]) \
                        and sorted(p_[1][0] for p_, _ in st[1][2]) == ['Err', 'Ok'] and not lst:
                    # `match res { Ok(x) => A, Err(e) => B }` in return position: an `if` on `is_ok()`, the arms as the branches
                    cnt[0] += 1
                    t_ = 'res_v%d' % cnt[0]
                    tp_ = ('path', [t_])
                    out.append(('let', ('pid', t_), None, ex(st[1][1])))
                    br = {}
                    for p_, body_ in st[1][2]:
                        pre_ = []
                        if p_[2][0][0] == 'mbind':
                            pre_ = [('let', ('pid', p_[2][0][1]), None, ('okget' if p_[1] == ['Ok'] else 'errget', tp_))]
                        if isinstance(body_, tuple) and body_ and body_[0] == 'block':
                            bs_ = list(body_[1])
                        else:
                            bs_ = [('tail', body_)]
                        br[p_[1][0]] = ('block', pre_ + stmts(bs_))
                    out.append(('tail', ('if', ('isok', tp_), br['Ok'], br['Err'])))
                    continue
                if st[0] in ('expr', 'expr_nosemi', 'tail') and isinstance(st[1], tuple) and st[1] and st[1][0] == 'ifsome':
                    _, var_, scrut_, a_, b_ = st[1]
                    special = b_ is not None and bool(b_[1]) and b_[1][-1][0] == 'return' and not self.has_return(a_)
                    if not special:
                        # general `if let Some(x) = e { A } else { B }`: bind the option, then an ordinary `if` on `is_some()`
                        cnt[0] += 1
                        t_ = 'opt_v%d' % cnt[0]
                        tp_ = ('path', [t_])
                        out.append(('let', ('pid', t_), None, ex(scrut_)))
                        nb_ = ('block', stmts(b_[1])) if b_ is not None else None
                        out.append(('expr_nosemi', ('if', ('issome', tp_),
                                                    ('block', [('let', ('pid', var_), None, ('getsome', tp_))] + stmts(a_[1])), nb_)))
                        continue
                if (st[0] == 'let' and st[1][0] == 'pid' and isinstance(st[3], tuple) and st[3][0] == 'mcall'
                        and st[3][2] == 'into_iter' and not st[3][3] and st[3][1][0] == 'path' and len(st[3][1][1]) == 1):
                    # `let mut iter = digits.into_iter();`: the iterator is the sequence plus a position
                    pos = st[1][1] + '_pos'
                    iters[st[1][1]] = (st[3][1], pos)
                    out.append(('let', ('pid', pos), 'usize', ('lit', 0, 'usize')))
                    continue
                if st[0] == 'foreach' and isinstance(st[1], str):
                    it = st[2]
                    if it[0] == 'mcall' and it[2] == 'by_ref' and not it[3]:
                        it = it[1]
                    if it[0] == 'path' and len(it[1]) == 1 and it[1][0] in iters:
                        # `for x in iter.by_ref()` / `for x in iter`: take the next element, advance, run the body
                        seq, pos = iters[it[1][0]]
                        pv = ('path', [pos])
                        body = [('let', ('pid', st[1]), None, ('index', seq, pv)),
                                ('assign', pv, ('bin', '+', pv, ('lit', 1, 'usize')))] + stmts(st[3][1])
                        out.append(('while', ('bin', '<', pv, ('mcall', seq, 'len', [])), ('block', body)))
                        continue
                if st[0] == 'let' and st[1][0] == 'ptuple' and len(st[1][1]) == 2 and all(q[0] == 'pid' for q in st[1][1]) \
                        and isinstance(st[3], tuple) and st[3][0] == 'mcall' and st[3][2] == 'split_at' and len(st[3][3]) == 1 \
                        and getattr(self, 'str_params', None) is None:        # (a `str` is split at a BYTE offset: see `mcall`)
                    # `let (head, tail) = xs.split_at(n);` (shared borrow): the two halves
                    xs_, n_ = ex(st[3][1]), ex(st[3][3][0])
                    out.append(('let', st[1][1][0], None, ('index', xs_, ('rangeto', n_))))
                    out.append(('let', st[1][1][1], None, ('index', xs_, ('rangefrom', n_))))
                    continue
                if st[0] == 'expr' and st[1][0] == 'call' and st[1][1][-1] == 'swap' and len(st[1][2]) == 2 \
                        and all(a[0] == 'refmut' and a[1][0] == 'path' for a in st[1][2]):
                    # `swap(&mut a, &mut b);`
                    a_, b_ = st[1][2][0][1], st[1][2][1][1]
                    out.append(('assign', ('tuple', [a_, b_]), ('tuple', [b_, a_])))
                    continue
                if st[0] == 'expr' and st[1][0] == 'mcall' and st[1][2] in getattr(self, 'method_rewrites', {}) \
                        and all(a[0] == 'refmut' and a[1][0] == 'path' for a in st[1][3]):
                    # `m.apply(&mut a, &mut b);` with `apply` declared as an extern returning the new (a, b)
                    tg = [a[1] for a in st[1][3]]
                    out.append(('assign', ('tuple', tg) if len(tg) > 1 else tg[0],
                                ('call', [self.method_rewrites[st[1][2]]], [ex(st[1][1])] + tg)))
                    continue
                if st[0] == 'let' and st[1][0] == 'pid' and st[1][1] in mutparams:
                    v = st[1][1]
                    hi = prefix_of(st[3], v)
                    if hi is not None:
                        out += narrow(v, ex(hi))
                        continue
                    e = st[3]
                    if (isinstance(e, tuple) and e and e[0] == 'ifsome' and e[4] is not None and len(e[3][1]) == 1
                            and e[3][1][0][0] == 'tail' and prefix_of(e[3][1][0][1], v) is not None):
                        # `let v = if let Some(i) = E { &mut v[..hi] } else { …; return; };`
                        hi = prefix_of(e[3][1][0][1], v)
                        out.append(('expr_nosemi', ('ifsome', e[1], ex(e[2]), ('block', narrow(v, ex(hi))), ('block', stmts(e[4][1])))))
                        continue
                    raise TranslateError('re-binding of the slice parameter %s' % v)
                if st[0] == 'let' and st[1][0] == 'pid':
                    u = unchecked(st[3])
                    if u is not None and u[2] == 'get_unchecked_mut':
                        if u[3][0][0] != 'lit':
                            raise TranslateError('a place alias needs a literal index')
                        lst = subst(lst, st[1][1], ('index', u[1], u[3][0]))
                        continue
                if (st[0] == 'let' and st[1][0] == 'pid' and isinstance(st[3], tuple) and st[3][:1] == ('mcall',)
                        and st[3][2] == 'map_or' and len(st[3][3]) == 2 and st[3][3][1][0] == 'closure'
                        and len(st[3][3][1][1]) == 1 and getattr(self, 'div_panics', False)):
                    # `let x = opt.map_or(d, |v| body);` whose body can panic: `if let Some(v) = opt { x = body } else { x = d }`
                    cnt[0] += 1
                    fresh_ = '%s_v%d' % (st[1][1], cnt[0])
                    clo = st[3][3][1]
                    var_ = clo[1][0]
                    out.append(('let', ('pid', fresh_), None, ('uninit',)))
                    out.append(('expr_nosemi', ('ifsome', var_, ex(st[3][1]),
                                                ('block', [('assign', ('path', [fresh_]), ex(clo[2]))]),
                                                ('block', [('assign', ('path', [fresh_]), ex(st[3][3][0]))]))))
                    out.append(('let', st[1], st[2], ('path', [fresh_])))
                    continue
                if st[0] == 'let' and isinstance(st[3], tuple) and st[3] and (
                        (st[3][0] == 'if' and st[3][3] is not None) or st[3][0] == 'block'
                        or (st[3][0] == 'match' and any(b_[0] == 'block' and b_[1] and b_[1][-1][0] in ('return', 'continue', 'break')
                                                        for _, b_ in st[3][2]))) and effectful(st[3]) \
                        and unchecked(st[3]) is None:
                    cnt[0] += 1
                    names = self.pat_names(st[1])
                    fresh = dict((n, '%s_v%d' % (n, cnt[0])) for n in names if n != '_')

                    def ren(p):
                        return ('pid', fresh.get(p[1], p[1])) if p[0] == 'pid' else ('ptuple', [ren(q) for q in p[1]])
                    tp = ren(st[1])
                    for n in names:
                        if n != '_':
                            out.append(('let', ('pid', fresh[n]), None, ('uninit',)))
                    body = into(('block', [('tail', st[3])]) if st[3][0] in ('if', 'match') else st[3], pat_expr(tp))
                    out += stmts(body[1])
                    out.append(('let', st[1], st[2], pat_expr(tp)))
                    continue
                out.append(ex(st))
            return out
        body = stmts(blk[1])
        if body and body[-1][0] == 'while' and body[-1][1] == ('bool', True):
            def brk(node):
                if isinstance(node, list):
                    return [brk(x) for x in node]
                if isinstance(node, tuple):
                    if node and node[0] == 'breakval':
                        return ('return', node[1])
                    if node and node[0] in ('while', 'for', 'foreach', 'closure'):
                        return node
                    return tuple(brk(x) for x in node)
                return node
            body[-1] = ('while', body[-1][1], brk(body[-1][2]))
        return ('block', body)

    def function(self, fn, lean_name):
        self.consts = {}
        self.tables = {}
        self.cur_fn = lean_name
        env = {}
        params = []
        for n, t in fn['params']:
            t = self.ty(t)
            env[n] = t
            params.append('(%s : %s)' % (lean_ident(n), self.lean_ty(t)))
        rt = self.ty_deep(fn['ret'])
        self.inner_rt = rt
        self.mut_ret = None
        self.const_generics = [c for c in fn.get('consts', [])
                               if not (getattr(self, 'uint_mode', False) and c in ('BITS', 'LIMBS'))]
        muts = [n for n, t in fn['params'] if self.ty(t) == 'mutslice' or (n == 'self' and fn.get('self_mut'))]
        if muts:
            # `&mut [u64]` parameters (and `&mut self`): the function returns their final contents in front of its own result
            unit = isinstance(rt, tuple) and rt[0] == 'tuple' and not rt[1]
            parts = [('uint' if n == 'self' else 'slice') for n in muts] + ([] if unit else [rt])
            rt = parts[0] if len(parts) == 1 else ('tuple', parts)
            self.mut_ret = (muts, unit)
        def may_panic(node):
            if isinstance(node, list):
                return any(may_panic(x) for x in node)
            if isinstance(node, tuple) and node:
                if node[0] == 'mcall' and node[2] in ('expect', 'unwrap'):
                    return True
                if node[0] in ('assert', 'panic'):
                    return True
                if node[0] == 'mcall' and node[2] == 'split_at' and getattr(self, 'str_params', None) == 'panics':
                    return True
                if node[0] == 'call' and node[1] == ['Self', 'from'] and getattr(self, 'uint_mode', False) == 'value':
                    return True
                if node[0] == 'call' and node[1] == ['Self', 'try_from'] and len(node[2]) == 1 and node[2][0][0] == 'cast' \
                        and node[2][0][2] == 'f64' and 'UintV::try_from_f64' in self.fns and getattr(self, 'uint_mode', False) == 'value':
                    return True             # `Self::try_from(x as f64)`: the (panicking) `TryFrom<f64>`
                if node[0] == 'call' and node[1] == ['Self', 'try_from'] and getattr(self, 'uint_mode', False) is True \
                        and 'try_from' not in getattr(self, 'call_alias', {}) \
                        and any(k.startswith('Uint::try_from_') and len(v) > 7 and v[7] for k, v in self.fns.items()):
                    return True             # the `TryFrom<T> for Uint` impls assert (`from_limbs`): selected by type at the call
                if node[0] == 'call' and ('::'.join(node[1]) in getattr(self, 'panic_externs', ())
                                          or node[1][-1] in getattr(self, 'panic_externs', ())):
                    return True
                if node[0] == 'mcall' and node[2] in getattr(self, 'method_rewrites', {}) \
                        and self.method_rewrites[node[2]] in getattr(self, 'panic_externs', ()):
                    return True
                if node[0] == 'call' and len(self.fns.get(node[1][-1], ())) > 7 and self.fns[node[1][-1]][7]:
                    return True
                if node[0] == 'call' and node[1][0] == 'Self' and len(node[1]) == 2 \
                        and len(self.fns.get('Uint::' + node[1][1], ())) > 7 and self.fns['Uint::' + node[1][1]][7]:
                    return True
                if node[0] == 'call' and node[1][0] == 'Self' and len(node[1]) == 2 and node[1][1] in getattr(self, 'call_alias', {}) \
                        and len(self.fns.get(self.call_alias[node[1][1]], ())) > 7 and self.fns[self.call_alias[node[1][1]]][7]:
                    return True
                if node[0] == 'mcall' and len(self.fns.get('Uint::' + node[2], ())) > 7 and self.fns['Uint::' + node[2]][7] \
                        and getattr(self, 'uint_mode', False) is True:
                    return True
                if node[0] == 'mcall' and len(self.fns.get('UintV::' + node[2], ())) > 7 and self.fns['UintV::' + node[2]][7] \
                        and getattr(self, 'uint_mode', False) == 'value':
                    return True
                return any(may_panic(x) for x in node)
            return False
        # a function that can panic (`expect` / `unwrap` of `None`, or a callee that can) returns `Option`: `none` = panic
        self.panics = may_panic(fn['body'])
        if self.panics:
            rt = ('option', rt)
        self.cur_rt = rt
        self.aux = []
        self.uses_fuel = False
        self.nloops = 0
        self.window_rest = {}
        mutp = [n for n, t in fn['params'] if self.ty(t) == 'mutslice']
        fbody = self.desugar(fn['body'], mutp)
        if self.window_rest:
            fbody = ('block', [('let', ('pid', r), None, ('nil',)) for r in self.window_rest.values()] + fbody[1])
        self.window_done = {}
        if any(self.ty(t) == 'mutslice' for _, t in fn['params']):
            fbody = self.window_rewrite(fbody, [n for n, t in fn['params'] if self.ty(t) == 'mutslice'])
        body, tb = self.block(fbody, env, self.inner_rt, result='fn')
        out = ''
        for tn, (term, t) in self.tables.items():
            out += 'def %s_%s : List Nat :=\n  %s\n\n' % (lean_name, tn, term)
        for a in self.aux:
            out += a + '\n'
        if getattr(self, 'uint_mode', False):
            params = ['(BITS LIMBS : Nat)'] + params
        if self.const_generics:
            params = ['(%s : Nat)' % ' '.join(self.const_generics)] + params
        if getattr(self, 'recursive', None):
            # a self-recursive function: structural recursion on the fuel (`none` when it runs out)
            params = ['(fuel0 : Nat)'] + params
            out += 'def %s %s : %s :=\n  match fuel0 with\n  | 0 => none\n  | fuel + 1 => (\n  %s)\n' % (
                lean_name, ' '.join(params), self.lean_ty(rt), body)
            return out
        if self.uses_fuel:
            params = ['(fuel : Nat)'] + params
        out += 'def %s %s : %s :=\n  %s\n' % (lean_name, ' '.join(params), self.lean_ty(rt), body)
        return out

    def ty_deep(self, t):
        t = self.ty(t)
        if isinstance(t, tuple) and t[0] == 'tuple':
            return ('tuple', [self.ty_deep(x) for x in t[1]])
        if isinstance(t, tuple) and t[0] == 'option':
            return ('option', self.ty_deep(t[1]))
        if isinstance(t, tuple) and t[0] == 'result':
            return ('result', self.ty_deep(t[1]), self.ty(t[2]))
        return t

    def lean_ty(self, t):
        if t == 'bool':
            return 'Bool'
        if t == 'Ordering':
            return 'Ordering'
        if isinstance(t, tuple) and t[0] == 'option':
            return 'Option (%s)' % self.lean_ty(t[1])
        if isinstance(t, tuple) and t[0] == 'enum':
            # (variant index in the enum's declaration order, field slots padded with defaults)
            return ' × '.join(['Nat'] + [self.lean_ty(x) for x in self.enum_slots(t)])
        if isinstance(t, tuple) and t[0] == 'result':
            et_ = t[2] if len(t) > 2 and isinstance(t[2], tuple) and t[2][0] == 'enum' else None
            if len(t) > 2 and isinstance(t[2], str) and t[2] in WIDTH:
                return 'Except Nat (%s)' % self.lean_ty(t[1])           # an error code
            return 'Except (%s) (%s)' % (self.lean_ty(et_) if et_ else 'Nat × Nat × Nat', self.lean_ty(t[1]))
        if t == 'uint' and getattr(self, 'uint_mode', False) == 'value':
            return 'Nat'
        if t == 'uintlist':
            return 'List (List Nat)'
        if t in ('uint', 'slice', 'mutslice') or (isinstance(t, tuple) and t[0] == 'array'):
            return 'List Nat'
        if isinstance(t, tuple) and t[0] == 'tuple':
            if not t[1]:
                return 'Unit'
            return ' × '.join(self.lean_ty(x) if not (isinstance(x, tuple) and x[0] == 'tuple') else '(' + self.lean_ty(x) + ')' for x in t[1])
        return 'Nat'


PRELUDE = '''/-! Fixed-width word semantics used by the generated definitions (hand-written, fixed). -/
namespace Rs
/-- `a + b` at width `w`, wrapping. -/
def wadd (w a b : Nat) : Nat := (a + b) % 2 ^ w
/-- `a - b` at width `w`, wrapping (operands are `w`-bit words). -/
def wsub (w a b : Nat) : Nat := (a + 2 ^ w - b) % 2 ^ w
def wmul (w a b : Nat) : Nat := (a * b) % 2 ^ w
/-- `a << k` at width `w` (bits shifted out are lost). -/
def wshl (w a k : Nat) : Nat := (a * 2 ^ k) % 2 ^ w
def wneg (w a : Nat) : Nat := (2 ^ w - a) % 2 ^ w
def oadd (w a b : Nat) : Nat × Bool := ((a + b) % 2 ^ w, decide (2 ^ w ≤ a + b))
def osub (w a b : Nat) : Nat × Bool := ((a + 2 ^ w - b) % 2 ^ w, decide (a < b))
def omul (w a b : Nat) : Nat × Bool := ((a * b) % 2 ^ w, decide (2 ^ w ≤ a * b))
/-- number of leading zero bits of a `w`-bit word -/
def clz (w a : Nat) : Nat := w - Nat.log2 a - (if a = 0 then 0 else 1)
/-- number of one bits (words of at most 128 bits) -/
def popAux : Nat → Nat → Nat
  | 0, _ => 0
  | f + 1, x => x % 2 + popAux f (x / 2)
def popcnt (a : Nat) : Nat := popAux 128 a
/-- number of trailing zero bits of a `w`-bit word (`w` for zero) -/
def ctzAux : Nat → Nat → Nat
  | 0, _ => 0
  | f + 1, x => if x % 2 = 1 then 0 else ctzAux f (x / 2) + 1
def ctz (w a : Nat) : Nat := if a = 0 then w else ctzAux w a
/-- `reverse_bits` of a `w`-bit word -/
def revAux : Nat → Nat → Nat → Nat
  | 0, _, acc => acc
  | f + 1, x, acc => revAux f (x / 2) (2 * acc + x % 2)
def rev (w a : Nat) : Nat := revAux w a 0
/-- `iter().position(p)` -/
def position (p : Nat → Bool) : List Nat → Option Nat
  | [] => none
  | x :: xs => if p x then some 0 else (position p xs).map (· + 1)
/-- `iter().rposition(p)`: index of the last element satisfying `p` -/
def rposition (p : Nat → Bool) : List Nat → Option Nat
  | [] => none
  | x :: xs =>
    match rposition p xs with
    | some i => some (i + 1)
    | none => if p x then some 0 else none
/-- iterate `step` (new state, continue?) at most `fuel` times, stopping when it says so -/
def loop {σ : Type} (step : σ → σ × Bool) : Nat → σ → σ
  | 0, s => s
  | fuel + 1, s => if (step s).2 then loop step fuel (step s).1 else (step s).1
end Rs
'''


PRELUDE_RES = '''/-! `Result` helpers used by generated `match`es on `Ok` / `Err` patterns (hand-written, fixed). -/
namespace Rs
def isOk {ε α : Type} : Except ε α → Bool
  | .ok _ => true
  | .error _ => false
def okD {ε α : Type} (d : α) : Except ε α → α
  | .ok a => a
  | .error _ => d
def errD {ε α : Type} (d : ε) : Except ε α → ε
  | .ok _ => d
  | .error e => e
end Rs
'''

PRELUDE_STR = '''/-! `str` operations on the list of a string's code points (hand-written, fixed). -/
namespace Rs
/-- number of bytes of the UTF-8 encoding of a code point -/
def utf8Size (c : Nat) : Nat := if c < 0x80 then 1 else if c < 0x800 then 2 else if c < 0x10000 then 3 else 4
/-- `str::len()`: the number of bytes of the UTF-8 encoding -/
def utf8Len : List Nat → Nat
  | [] => 0
  | c :: cs => utf8Size c + utf8Len cs
/-- `str::is_char_boundary(k)`: byte offset `k` is the start of a character or the end of the string -/
def isCharBoundary : List Nat → Nat → Bool
  | _, 0 => true
  | [], _ + 1 => false
  | c :: cs, k + 1 => if k + 1 < utf8Size c then false else isCharBoundary cs (k + 1 - utf8Size c)
/-- `str::split_at(k)` at a character boundary: the characters before byte `k`, and the rest -/
def splitAtByte : List Nat → Nat → List Nat × List Nat
  | cs, 0 => ([], cs)
  | [], _ + 1 => ([], [])
  | c :: cs, k + 1 =>
    if k + 1 < utf8Size c then ([], c :: cs)
    else let p := splitAtByte cs (k + 1 - utf8Size c); (c :: p.1, p.2)
end Rs
'''

PRELUDE_BYTES = '''import Ruint.Gen.Prelude
/-! Byte-level word reads used by the generated byte-slice decoders (hand-written, fixed). -/
namespace Rs
/-- `u64::from_le_bytes` of the 8 bytes of `bs` starting at `off` -/
def leWord (bs : List Nat) (off : Nat) : Nat :=
  (List.range 8).foldr (fun i acc => bs.getD (off + i) 0 + 256 * acc) 0
/-- `u64::from_be_bytes` of the 8 bytes of `bs` starting at `off` -/
def beWord (bs : List Nat) (off : Nat) : Nat :=
  (List.range 8).foldl (fun acc i => acc * 256 + bs.getD (off + i) 0) 0
end Rs
'''


def translate(items, namespace='Ruint.Gen', imports=('Ruint.Gen.Prelude',), fns=None, only_group=None):
    """items: list of dicts {file, fn, lean, self_ty?, key?, group?}; returns (lean source, errors).
    `fns` carries the signatures of functions translated in earlier groups."""
    fns = {} if fns is None else fns
    out = [''.join('import %s\n' % i for i in imports),
           '/-! GENERATED by tools/rs2lean.py from the Rust sources of /repo — do not edit. -/\n',
           'namespace %s\n' % namespace]
    errors = []
    skipped = []
    for it in items:
        if only_group is not None and it.get('group', 'core') != only_group:
            continue
        try:
            src = open(it['file']).read()
            if it.get('text'):
                text = it['text']                  # the item instantiated a macro arm itself
            elif it.get('after'):
                # several functions of this name in the file: search after the named anchor (the `impl` header)
                if it['after'] not in src:
                    raise TranslateError('anchor not found: %s' % it['after'])
                text = extract_fn(src[src.index(it['after']):], it['fn'])
            else:
                text = extract_fn(src, it['fn'])
            raw_text = text
            for k_, v_ in sorted(it.get('subst_after', {}).items(), key=lambda kv: -len(kv[0])):
                text = text.replace(k_, v_)
            for k_, v_ in it.get('subst', {}).items():
                # macro metavariables of the enclosing `macro_rules!` arm, instantiated as the macro call does
                text = text.replace(k_, v_)
            for pat_, rep_ in it.get('rewrite', []):
                # declared source-level rewrites of constructs outside the translated subset (each must match exactly once)
                if len(re.findall(pat_, text)) != 1:
                    raise TranslateError('rewrite anchor not found exactly once: %s' % pat_)
                text = re.sub(pat_, rep_, text)
            fn = Parser(tokenize(text)).parse_fn()
            em = Emitter(fns, it.get('self_ty'), structs=it.get('structs'), gconsts=it.get('gconsts'), self_name=it.get('self_name'))
            em.uint_mode = it.get('uint') or False     # True: limb lists; 'value': a Uint is its numeric value
            em.file_text = src
            em.str_params = it.get('str_params')
            em.str_vars = it.get('str_vars', ())
            em.externs = it.get('externs', {})
            em.call_alias = it.get('call_alias', {})
            em.panic_externs = it.get('panic_externs', ())
            em.div_panics = it.get('div_panics', False)
            em.recursive = it['lean'] if it.get('recursive') else None
            em.method_rewrites = it.get('method_rewrites', {})
            # field-less / word-carrying enums declared in the same file (error types)
            em.enums = {}
            em.enum_fields = {}
            esrc_ = src + ''.join('\n' + open(f_).read() for f_ in it.get('enum_files', []))   # error enums of other modules
            for m_ in re.finditer(r'\benum\s+(\w+)\s*(?:<\s*(\w+)\s*>)?\s*\{(.*?)\n\}', re.sub(r'//[^\n]*', '', esrc_), re.S):
                vs = []
                fts = []
                for v_ in re.finditer(r'(?:#\[[^\]]*\]\s*)*(\w+)\s*(\(([^)]*)\))?\s*,', m_.group(3)):
                    fl = [x.strip() for x in (v_.group(3) or '').split(',') if x.strip()]
                    vs.append((v_.group(1), len(fl)))
                    fts.append(fl)
                em.enums[m_.group(1)] = vs
                em.enum_fields[m_.group(1)] = (m_.group(2), fts)      # (type parameter, field types per variant)
            # generic parameters `I: IntoIterator<Item = u64>` are digit sequences
            em.typarams = list(fn.get('typarams', []))
            em.typarams_ty = it.get('typarams_ty')
            em.assoc = {}
            for an_ in set(re.findall(r'\btype\s+(\w+)\s*=', src)):
                vals_ = set(re.findall(r'\btype\s+%s\s*=\s*([^;]+);' % an_, src))
                if len(vals_) == 1 and list(vals_)[0].strip() in WIDTH:
                    em.assoc[an_] = list(vals_)[0].strip()
            # associated types of the enclosing `impl`: the nearest `type X = …;` in front of the function
            pos_ = src.find(raw_text[:60], src.index(it['after']) if it.get('after') else 0)
            if pos_ >= 0:
                for an_, av_ in re.findall(r'\btype\s+(\w+)\s*=\s*([^;]+);', src[max(0, pos_ - 600):pos_]):
                    try:
                        em.assoc[an_] = Parser(tokenize(av_.strip())).parse_type()
                    except (TranslateError, IndexError):
                        pass
            if it.get('self_fields'):
                # a struct `self` with named fields: each field becomes a parameter (`self.f` -> `self_f`)
                sf = it['self_fields']
                fn = dict(fn)
                fn['params'] = [x for n_, t_ in fn['params'] for x in
                                ([('self_' + f_, ft_) for f_, ft_ in sf] if n_ == 'self' else [(n_, t_)])]

                def selfsub(node):
                    if isinstance(node, list):
                        return [selfsub(x) for x in node]
                    if isinstance(node, tuple):
                        if node and node[0] == 'fieldname' and node[1] == ('path', ['self']) and node[2] in dict(sf):
                            return ('path', ['self_' + node[2]])
                        return tuple(selfsub(x) for x in node)
                    return node
                fn['body'] = selfsub(fn['body'])
                fn['self_mut'] = False
            code = em.function(fn, it['lean'])
            key = it.get('key', it['fn'])
            mutidx = [i for i, (_, t) in enumerate(fn['params']) if em.ty(t) == 'mutslice']
            fns[key] = (it['lean'], [em.ty(t) for _, t in fn['params']], em.cur_rt, em.uses_fuel,
                        list(fn.get('consts', [])), bool(fn.get('self_mut')),
                        (mutidx, bool(em.mut_ret and em.mut_ret[1])) if mutidx else None, bool(em.panics))
            for alias in it.get('aliases', []):
                fns[alias] = fns[key]
            out.append('/-- `%s` (%s) -/\n%s' % (it['fn'], it['file'].split('/src/')[-1], code))
        except (TranslateError, IndexError, KeyError, ValueError, TypeError, AttributeError) as ex:
            if it.get('optional'):
                skipped.append('%s (%s): %s' % (it['lean'], it['fn'], ex))
            else:
                errors.append('%s: %s' % (it['fn'], ex))
    if skipped:
        out.append('/- not translated (outside the subset):\n' + '\n'.join(' ' + x.replace('-/', '- /') for x in skipped) + '\n-/')
    out.append('end %s\n' % namespace)
    return '\n'.join(out), errors


def default_items(repo):
    a = repo + '/src/algorithms/'
    return [
        {'file': repo + '/src/lib.rs', 'fn': 'nlimbs', 'lean': 'nlimbs'},
        {'file': repo + '/src/lib.rs', 'fn': 'mask', 'lean': 'mask'},
        {'file': repo + '/src/bytes.rs', 'fn': 'nbytes', 'lean': 'nbytes'},
        {'file': a + 'mod.rs', 'fn': 'carrying_add', 'lean': 'carrying_add'},
        {'file': a + 'mod.rs', 'fn': 'borrowing_sub', 'lean': 'borrowing_sub'},
        {'file': a + 'mod.rs', 'fn': 'join', 'lean': 'dw_join', 'self_ty': 'u128', 'key': 'u128::join'},
        {'file': a + 'mod.rs', 'fn': 'add', 'lean': 'dw_add', 'self_ty': 'u128', 'key': 'u128::add'},
        {'file': a + 'mod.rs', 'fn': 'mul', 'lean': 'dw_mul', 'self_ty': 'u128', 'key': 'u128::mul'},
        {'file': a + 'mod.rs', 'fn': 'muladd', 'lean': 'dw_muladd', 'self_ty': 'u128', 'key': 'u128::muladd'},
        {'file': a + 'mod.rs', 'fn': 'muladd2', 'lean': 'dw_muladd2', 'self_ty': 'u128', 'key': 'u128::muladd2'},
        {'file': a + 'mod.rs', 'fn': 'high', 'lean': 'dw_high', 'self_ty': 'u128', 'key': 'u128::high'},
        {'file': a + 'mod.rs', 'fn': 'low', 'lean': 'dw_low', 'self_ty': 'u128', 'key': 'u128::low'},
        {'file': a + 'mod.rs', 'fn': 'split', 'lean': 'dw_split', 'self_ty': 'u128', 'key': 'u128::split'},
        {'file': a + 'ops.rs', 'fn': 'adc', 'lean': 'adc'},
        {'file': a + 'ops.rs', 'fn': 'sbb', 'lean': 'sbb'},
        {'file': a + 'mul_redc.rs', 'fn': 'carrying_mul_add', 'lean': 'carrying_mul_add', 'group': 'redc'},
        {'file': a + 'mul_redc.rs', 'fn': 'carrying_double_mul_add', 'lean': 'carrying_double_mul_add', 'group': 'redc'},
        {'file': a + 'div/reciprocal.rs', 'fn': 'mul_hi', 'lean': 'mul_hi', 'group': 'div'},
        {'file': a + 'div/reciprocal.rs', 'fn': 'muladd_hi', 'lean': 'muladd_hi', 'group': 'div'},
        {'file': a + 'div/reciprocal.rs', 'fn': 'reciprocal_mg10', 'lean': 'reciprocal_mg10', 'aliases': ['reciprocal'], 'group': 'div'},
        {'file': a + 'div/reciprocal.rs', 'fn': 'reciprocal_2_mg10', 'lean': 'reciprocal_2_mg10', 'aliases': ['reciprocal_2'], 'group': 'div'},
        {'file': a + 'div/small.rs', 'fn': 'div_2x1_mg10', 'lean': 'div_2x1_mg10', 'aliases': ['div_2x1'], 'group': 'div'},
        {'file': a + 'div/small.rs', 'fn': 'div_3x2_mg10', 'lean': 'div_3x2_mg10', 'aliases': ['div_3x2'], 'group': 'div'},
        {'file': a + 'div/reciprocal.rs', 'fn': 'reciprocal_ref', 'lean': 'reciprocal_ref', 'group': 'div'},
        {'file': a + 'div/small.rs', 'fn': 'div_2x1_ref', 'lean': 'div_2x1_ref', 'group': 'div'},
    ]


MATRIX = ('tuple', ['u64', 'u64', 'u64', 'u64', 'bool'])


def lehmer_items(repo):
    f = repo + '/src/algorithms/gcd/matrix.rs'
    src = open(f).read()
    st = {'Matrix': MATRIX}
    gc = {}
    m = re.search(r'const\s+IDENTITY\s*:\s*Self\s*=\s*Self\(([^;]*)\);', src)
    if m:
        parts = [x.strip() for x in m.group(1).split(',')]
        gc['Matrix::IDENTITY'] = ('(' + ', '.join(parts) + ')', MATRIX)
    m = re.search(r'const\s+LIMIT\s*:\s*u64\s*=\s*([^;]*);', src)
    common = {'structs': st, 'gconsts': gc, 'self_ty': 'Matrix', 'self_name': 'Matrix', 'group': 'lehmer', 'file': f}
    out = []
    for fn, lean in (('compose', 'lehmer_compose'), ('apply_u128', 'lehmer_apply_u128'), ('from_u64', 'lehmer_from_u64'),
                     ('from_u64_prefix', 'lehmer_from_u64_prefix'), ('from_u128_prefix', 'lehmer_from_u128_prefix')):
        d = dict(common)
        d.update({'fn': fn, 'lean': lean, 'key': 'Matrix::' + fn})
        out.append(d)
    return out


# slice algorithms that are not translated (`addmul_n`: unrolled macro bodies, tied by C15's own generator): the C15 model
# function stands for the callee. (`addmul` itself is translated: group 'kernels'.)
# name -> (template, type, indices of the `&mut` arguments it updates[, returns unit])
UINT_EXTERNS = {
    'addmul_n': ('(Ruint.Limb.addmulN Ruint.W %s %s %s).getD []', 'uint', [0], True),
}


def uint_items(repo):
    out = []
    for f, fn in (('lib.rs', 'masked'), ('add.rs', 'overflowing_add'), ('add.rs', 'overflowing_sub'),
                  ('lib.rs', 'apply_mask'), ('bits.rs', 'overflowing_shl'), ('bits.rs', 'overflowing_shr'),
                  ('bits.rs', 'bit'), ('bits.rs', 'set_bit'), ('bits.rs', 'not'), ('bits.rs', 'leading_zeros'),
                  ('bits.rs', 'leading_ones'), ('bits.rs', 'count_ones'), ('bits.rs', 'count_zeros'),
                  ('bits.rs', 'bit_len'), ('bits.rs', 'byte_len'),
                  ('add.rs', 'overflowing_neg'), ('add.rs', 'checked_add'), ('add.rs', 'checked_sub'), ('add.rs', 'checked_neg'),
                  ('add.rs', 'saturating_add'), ('add.rs', 'saturating_sub'), ('add.rs', 'wrapping_add'),
                  ('add.rs', 'wrapping_sub'), ('add.rs', 'wrapping_neg'), ('add.rs', 'abs_diff'),
                  ('bits.rs', 'checked_shl'), ('bits.rs', 'saturating_shl'), ('bits.rs', 'wrapping_shl'),
                  ('bits.rs', 'checked_shr'), ('bits.rs', 'wrapping_shr'), ('bits.rs', 'arithmetic_shr'),
                  ('bits.rs', 'rotate_left'), ('bits.rs', 'rotate_right'),
                  ('mul.rs', 'overflowing_mul'), ('mul.rs', 'wrapping_mul'), ('mul.rs', 'checked_mul'),
                  ('mul.rs', 'saturating_mul'),
                  ('special.rs', 'is_power_of_two'), ('special.rs', 'checked_next_power_of_two'),
                  ('mul.rs', 'inv_ring'), ('bits.rs', 'trailing_zeros'), ('bits.rs', 'trailing_ones'),
                  ('bits.rs', 'most_significant_bits'), ('bits.rs', 'reverse_bits')):
        out.append({'file': repo + '/src/' + f, 'fn': fn, 'lean': 'uint_' + fn, 'key': 'Uint::' + fn, 'self_ty': 'uint',
                    'uint': True, 'group': 'uint', 'externs': UINT_EXTERNS})
    return out


def kernel_items(repo):
    a = repo + '/src/algorithms/'
    return [{'file': a + 'add.rs', 'fn': 'adc_n', 'lean': 'adc_n', 'group': 'kernels'},
            {'file': a + 'add.rs', 'fn': 'sbb_n', 'lean': 'sbb_n', 'group': 'kernels'},
            {'file': a + 'mul.rs', 'fn': 'add_nx1', 'lean': 'add_nx1', 'group': 'kernels'},
            {'file': a + 'mul.rs', 'fn': 'mul_nx1', 'lean': 'mul_nx1', 'group': 'kernels'},
            {'file': a + 'mul.rs', 'fn': 'addmul_nx1', 'lean': 'addmul_nx1', 'group': 'kernels'},
            {'file': a + 'mul.rs', 'fn': 'submul_nx1', 'lean': 'submul_nx1', 'group': 'kernels'},
            {'file': a + 'shift.rs', 'fn': 'shift_left_small', 'lean': 'shift_left_small', 'group': 'kernels'},
            {'file': a + 'shift.rs', 'fn': 'shift_right_small', 'lean': 'shift_right_small', 'group': 'kernels'},
            {'file': a + 'mod.rs', 'fn': 'cmp', 'lean': 'limb_cmp', 'group': 'kernels'},
            {'file': a + 'mul.rs', 'fn': 'addmul', 'lean': 'addmul', 'group': 'kernels'}]


def redc_loop_items(repo):
    f = repo + '/src/algorithms/mul_redc.rs'
    return [{'file': f, 'fn': 'sub', 'lean': 'redc_sub', 'group': 'redcloops'},
            {'file': f, 'fn': 'reduce1_carry', 'lean': 'reduce1_carry', 'group': 'redcloops'},
            {'file': f, 'fn': 'mul_redc', 'lean': 'mul_redc', 'group': 'redcloops'},
            {'file': f, 'fn': 'square_redc', 'lean': 'square_redc', 'group': 'redcloops'}]


def value_items(repo):
    """L2 ('value mode'): a Uint is its numeric value; callee methods are their value-level meanings (VALUE_METHODS) or the
    model function named in `externs`. Ties the control structure of the wrappers to the L2 models."""
    out = []
    for fn in ('overflowing_pow', 'wrapping_pow', 'checked_pow', 'saturating_pow', 'pow'):
        out.append({'file': repo + '/src/pow.rs', 'fn': fn, 'lean': 'val_' + fn, 'key': 'UintV::' + fn, 'self_ty': 'uint',
                    'uint': 'value', 'group': 'value'})
    ext = {'mul_mod': ('Ruint.Modular.mulMod BITS %s %s %s', 'uint')}
    for fn in ('reduce_mod', 'add_mod', 'pow_mod'):
        out.append({'file': repo + '/src/modular.rs', 'fn': fn, 'lean': 'val_' + fn, 'key': 'UintV::' + fn, 'self_ty': 'uint',
                    'uint': 'value', 'group': 'value', 'externs': ext})
    return out


def div_loop_items(repo):
    f = repo + '/src/algorithms/div/small.rs'
    return [{'file': f, 'fn': 'div_nx1_normalized', 'lean': 'div_nx1_normalized', 'group': 'divloops'},
            {'file': f, 'fn': 'div_nx2_normalized', 'lean': 'div_nx2_normalized', 'group': 'divloops'}]


def knuth_items(repo):
    """the un-normalised small divisions and Knuth's algorithm D, whole functions"""
    a = repo + '/src/algorithms/div/'
    return [{'file': a + 'small.rs', 'fn': 'div_nx1', 'lean': 'div_nx1', 'group': 'knuth'},
            {'file': a + 'small.rs', 'fn': 'div_nx2', 'lean': 'div_nx2', 'group': 'knuth'},
            {'file': a + 'knuth.rs', 'fn': 'div_nxm_normalized', 'lean': 'div_nxm_normalized', 'group': 'knuth'},
            {'file': a + 'knuth.rs', 'fn': 'div_nxm', 'lean': 'div_nxm', 'group': 'knuth'},
            {'file': a + 'mod.rs', 'fn': 'div', 'lean': 'div', 'group': 'knuth'}]


def uint_div_items(repo):
    """the `Uint` division surface (src/div.rs) over the generated `algorithms::div`"""
    out = []
    for f, fn in (('cmp.rs', 'is_zero'), ('div.rs', 'div_rem'), ('div.rs', 'wrapping_div'), ('div.rs', 'wrapping_rem'), ('div.rs', 'checked_div'),
                  ('div.rs', 'checked_rem'), ('div.rs', 'div_ceil'), ('special.rs', 'checked_next_multiple_of'),
                  ('special.rs', 'next_multiple_of')):
        out.append({'file': repo + '/src/' + f, 'fn': fn, 'lean': 'uint_' + fn, 'key': 'Uint::' + fn, 'self_ty': 'uint',
                    'uint': True, 'group': 'uintdiv', 'externs': UINT_EXTERNS,
                    # `Div::div` / `Rem::rem` for Uint forward to wrapping_div / wrapping_rem (impl_bin_op! in src/div.rs)
                    'aliases': {'wrapping_div': ['Uint::div'], 'wrapping_rem': ['Uint::rem']}.get(fn, [])})
    return out


def uint_mod_items(repo):
    """more of the `Uint` surface in limb mode: constructors with their assertion, the Montgomery wrappers, `mul_mod` over the
    generated `addmul` and `div`, `widening_mul`, `next_power_of_two`, `Ord::cmp`"""
    u = {'self_ty': 'uint', 'uint': True, 'group': 'uintmod', 'externs': UINT_EXTERNS}
    out = []
    for f, fn in (('lib.rs', 'from_limbs'), ('lib.rs', 'from_limbs_unmasked'), ('special.rs', 'next_power_of_two'),
                  ('mul.rs', 'widening_mul'), ('modular.rs', 'mul_mod'), ('modular.rs', 'mul_redc'),
                  ('modular.rs', 'square_redc'), ('cmp.rs', 'cmp')):
        d = dict(u, file=repo + '/src/' + f, fn=fn, lean='uint_' + fn, key='Uint::' + fn)
        if fn == 'mul_mod':
            # the product buffer `[[0u64; 2]; LIMBS]` viewed through a raw pointer as `product_len` limbs is a zeroed slice
            d['rewrite'] = [(r'let mut product = \[\[0u64; 2\]; LIMBS\];', ''),
                            (r'let product = unsafe \{\s*core::slice::from_raw_parts_mut\(product\.as_mut_ptr\(\)\.cast::<u64>\(\), product_len\)\s*\};',
                             'let product = zeroed_limbs(product_len);')]
        if fn == 'widening_mul':
            d['rewrite'] = [(r'Uint::<BITS_RES, LIMBS_RES>::ZERO', 'zeroed_uint(LIMBS_RES)')]
        out.append(d)
    return out


def bytes_items(repo):
    """the byte-slice decoders every codec funnels into (src/bytes.rs); the two raw-pointer word reads of the full-limb fast
    paths are declared rewrites to the prelude's `Rs.leWord` / `Rs.beWord`"""
    u = {'self_ty': 'uint', 'uint': True, 'group': 'bytes', 'externs': UINT_EXTERNS, 'file': repo + '/src/bytes.rs'}
    rw_le = [(r'u64::from_le_bytes\(unsafe \{ \*bytes\.as_ptr\(\)\.add\(i \* 8\)\.cast\(\) \}\)', 'le_word(bytes, i * 8)')]
    rw_be = [(r'let end = bytes\.as_ptr_range\(\)\.end;', ''),
             (r'u64::from_be_bytes\(unsafe \{ \*end\.sub\(\(i \+ 1\) \* 8\)\.cast\(\) \}\)',
              'be_word(bytes, bytes.len() - (i + 1) * 8)')]
    return [dict(u, fn='try_from_le_slice', lean='uint_try_from_le_slice', key='Uint::try_from_le_slice', rewrite=rw_le),
            dict(u, fn='try_from_be_slice', lean='uint_try_from_be_slice', key='Uint::try_from_be_slice', rewrite=rw_be)]


def conv_items(repo):
    """src/from.rs: integer conversions in both directions (limb mode). Several `fn try_from` live in the file: each item names
    the `impl` header it sits under; the `to_int!` macro body is instantiated per target type."""
    f = repo + '/src/from.rs'
    u = {'self_ty': 'uint', 'uint': True, 'group': 'conv', 'externs': UINT_EXTERNS, 'file': f}
    out = [dict(u, fn='try_from', lean='uint_try_from_u64', key='Uint::try_from_u64', after='TryFrom<u64> for Uint'),
           dict(u, fn='try_from', lean='uint_try_from_u128', key='Uint::try_from_u128', after='TryFrom<u128> for Uint',
                call_alias={'try_from': 'Uint::try_from_u64'}),
           dict(u, fn='const_from_u64', lean='uint_const_from_u64', key='Uint::const_from_u64'),
           dict(u, fn='try_from', lean='u128_try_from_uint', key='u128::try_from_uint',
                after='TryFrom<&Uint<BITS, LIMBS>> for u128', self_ty='u128'),
           dict(u, fn='try_from', lean='i128_try_from_uint', key='i128::try_from_uint',
                after='TryFrom<&Uint<BITS, LIMBS>> for i128', self_ty='i128'),
           dict(u, fn='try_from', lean='bool_try_from_uint', key='bool::try_from_uint',
                after='TryFrom<&Uint<BITS, LIMBS>> for bool', self_ty='bool')]
    for t in ('i8', 'u8', 'i16', 'u16', 'i32', 'u32', 'i64', 'u64', 'isize', 'usize'):
        out.append(dict(u, fn='try_from', lean='%s_try_from_uint' % t, key='%s::try_from_uint' % t,
                        after='TryFrom<&Uint<BITS, LIMBS>> for $int', self_ty=t, subst={'<$int>': t, '$int': t}))
    return out


def gcd_value_items(repo):
    """algorithms::gcd / gcd_extended / inv_mod in value mode (a Uint is its numeric value): the control structure of the
    Lehmer loops over the C12 models of `LehmerMatrix::from` / `apply` (declared externs that can panic: `none`)"""
    f = repo + '/src/algorithms/gcd/mod.rs'
    ext = {'LehmerMatrix::from': ('Ruint.Lehmer.matFrom %s %s', ('option', MATRIX)),
           'lehmer_apply': ('Ruint.Lehmer.apply BITS %s %s %s', ('option', ('tuple', ['uint', 'uint'])))}
    u = {'uint': 'value', 'group': 'gcdv', 'externs': ext, 'file': f, 'structs': {'LehmerMatrix': MATRIX},
         'gconsts': {'LehmerMatrix::IDENTITY': ('Ruint.Lehmer.ident', MATRIX)},
         'panic_externs': ('LehmerMatrix::from', 'lehmer_apply'), 'method_rewrites': {'apply': 'lehmer_apply'}}
    w = dict(u, self_ty='uint')
    return [dict(u, fn='gcd', lean='val_gcd', key='gcd'),
            dict(u, fn='gcd_extended', lean='val_gcd_extended', key='gcd_extended'),
            dict(u, fn='inv_mod', lean='val_inv_mod', key='inv_mod'),
            # the `Uint` methods over them (src/gcd.rs, src/modular.rs)
            dict(w, file=repo + '/src/gcd.rs', fn='gcd', lean='val_uint_gcd', key='UintV::gcd'),
            dict(w, file=repo + '/src/gcd.rs', fn='lcm', lean='val_uint_lcm', key='UintV::lcm'),
            dict(w, file=repo + '/src/gcd.rs', fn='gcd_extended', lean='val_uint_gcd_extended', key='UintV::gcd_extended'),
            dict(w, file=repo + '/src/modular.rs', fn='inv_mod', lean='val_uint_inv_mod', key='UintV::inv_mod')]


def fls_items(repo):
    """the limb-slice constructors of src/lib.rs (`match` with `panic!` arms, `split_at`, `any`) and the `Uint` <- `Uint`
    conversions of src/from.rs built on them"""
    u = {'self_ty': 'uint', 'uint': True, 'group': 'fls', 'externs': UINT_EXTERNS, 'file': repo + '/src/lib.rs'}
    out = []
    for fn in ('overflowing_from_limbs_slice', 'from_limbs_slice', 'checked_from_limbs_slice', 'wrapping_from_limbs_slice',
               'saturating_from_limbs_slice'):
        out.append(dict(u, fn=fn, lean='uint_' + fn, key='Uint::' + fn))
    f = repo + '/src/from.rs'
    out.append(dict(u, file=f, fn='uint_try_from', lean='uint_try_from_uint', key='Uint::uint_try_from_uint',
                    after='UintTryFrom<Uint<BITS_SRC, LIMBS_SRC>> for Uint<BITS, LIMBS>'))
    out.append(dict(u, file=f, fn='from_uint', lean='uint_from_uint', key='Uint::from_uint'))
    out.append(dict(u, file=f, fn='checked_from_uint', lean='uint_checked_from_uint', key='Uint::checked_from_uint'))
    return out


def shift_op_items(repo):
    """`Shl<Uint>` / `Shr<Uint>` of src/bits.rs (the shift amount is itself a Uint)"""
    u = {'self_ty': 'uint', 'uint': True, 'group': 'shiftops', 'externs': UINT_EXTERNS, 'file': repo + '/src/bits.rs'}
    return [dict(u, fn='shl', lean='uint_shl_uint', key='Uint::shl_uint', after='Shl<Self> for Uint<BITS, LIMBS>'),
            dict(u, fn='shr', lean='uint_shr_uint', key='Uint::shr_uint', after='Shr<Self> for Uint<BITS, LIMBS>')]


BIN_OPS = (('Add', 'add', 'AddAssign', 'add_assign', 'wrapping_add', 'add.rs'),
           ('Sub', 'sub', 'SubAssign', 'sub_assign', 'wrapping_sub', 'add.rs'),
           ('Mul', 'mul', 'MulAssign', 'mul_assign', 'wrapping_mul', 'mul.rs'),
           ('Div', 'div', 'DivAssign', 'div_assign', 'wrapping_div', 'div.rs'),
           ('Rem', 'rem', 'RemAssign', 'rem_assign', 'wrapping_rem', 'div.rs'))


def bin_op_items(repo):
    """the six operator shapes of `impl_bin_op!` (src/macros.rs), instantiated for every invocation found in the sources"""
    f = repo + '/src/macros.rs'
    hdr = 'impl<const BITS: usize, const LIMBS: usize> '
    shapes = (('assign_val', '$fn_assign', hdr + '$trait_assign<Uint<BITS, LIMBS>>'),
              ('assign_ref', '$fn_assign', hdr + '$trait_assign<&Uint<BITS, LIMBS>>'),
              ('val_val', '$fn', hdr + '$trait<Uint<BITS, LIMBS>>\n            for Uint<BITS, LIMBS>'),
              ('val_ref', '$fn', hdr + '$trait<&Uint<BITS, LIMBS>>\n            for Uint<BITS, LIMBS>'),
              ('ref_val', '$fn', hdr + '$trait<Uint<BITS, LIMBS>>\n            for &Uint<BITS, LIMBS>'),
              ('ref_ref', '$fn', hdr + '$trait<&Uint<BITS, LIMBS>>\n            for &Uint<BITS, LIMBS>'))
    out = []
    for tr, fn, tra, fna, fdel, src in BIN_OPS:
        inv = 'impl_bin_op!(%s, %s, %s, %s, %s);' % (tr, fn, tra, fna, fdel)
        try:
            present = inv in open(repo + '/src/' + src).read()
        except OSError:
            present = False
        for shape, fvar, after in shapes:
            sub = {'$trait_assign': tra, '$fn_assign': fna, '$trait': tr, '$fn': fn, '$fdel': fdel}
            a = after
            for k in ('$trait_assign', '$trait'):
                pass
            out.append({'file': f if present else repo + '/src/' + src + '.missing-invocation', 'fn': fvar, 'lean': 'op_%s_%s' % (fn, shape),
                        'key': 'Uint::op_%s_%s' % (fn, shape), 'self_ty': 'uint', 'uint': True, 'group': 'binops',
                        'externs': UINT_EXTERNS, 'after': after, 'subst_after': sub})
    return out


def bit_op_items(repo):
    """the limb loop of `impl_bit_op!` (src/bits.rs: `$trait_assign<&Uint>`, which the other five shapes forward to), instantiated
    for `| & ^`; `u64::bitor_assign(&mut x, y)` etc. are written `x |= y` (a declared substitution)"""
    f = repo + '/src/bits.rs'
    out = []
    for tr, fn, sym in (('BitOr', 'bitor', '|'), ('BitAnd', 'bitand', '&'), ('BitXor', 'bitxor', '^')):
        present = ('impl_bit_op!(%s, %s, %sAssign, %s_assign);' % (tr, fn, tr, fn)) in open(f).read()
        out.append({'file': f if present else f + '.missing-invocation', 'fn': '$fn_assign', 'lean': 'uint_%s_assign' % fn,
                    'key': 'Uint::%s_assign' % fn, 'self_ty': 'uint', 'uint': True, 'group': 'bitops', 'externs': UINT_EXTERNS,
                    'after': 'impl<const BITS: usize, const LIMBS: usize> $trait_assign<&Uint<BITS, LIMBS>>\n            for Uint<BITS, LIMBS>\n        {\n            #[inline]',
                    'subst_after': {'u64::$fn_assign(&mut self.limbs[i], rhs.limbs[i])': 'self.limbs[i] %s= rhs.limbs[i]' % sym,
                                    '$fn_assign': fn + '_assign'}})
    return out


def fold_items(repo):
    """iterator `Sum` / `Product` (by value and by reference): a left fold with the translated wrapping method"""
    u = {'self_ty': 'uint', 'uint': True, 'group': 'folds', 'externs': UINT_EXTERNS, 'typarams_ty': 'uintlist'}
    return [dict(u, file=repo + '/src/add.rs', fn='sum', lean='uint_sum', key='Uint::sum', after='Sum<Self> for Uint<BITS, LIMBS>'),
            dict(u, file=repo + '/src/add.rs', fn='sum', lean='uint_sum_ref', key='Uint::sum_ref',
                 after="Sum<&'a Self> for Uint<BITS, LIMBS>"),
            dict(u, file=repo + '/src/mul.rs', fn='product', lean='uint_product', key='Uint::product',
                 after='Product<Self> for Uint<BITS, LIMBS>'),
            dict(u, file=repo + '/src/mul.rs', fn='product', lean='uint_product_ref', key='Uint::product_ref',
                 after="Product<&'a Self> for Uint<BITS, LIMBS>")]


def conv2_items(repo):
    """the rest of src/from.rs: the signed `TryFrom` impls (`impl_from_signed_int!` instantiated per type) and the functions that
    match on a conversion result — `from` / `saturating_from` / `wrapping_from` as functions of the `Result` that the generic
    `Self::uint_try_from(value)` yields, `wrapping_to` / `saturating_to` as functions of the `Result` of `self.uint_try_to()`
    (declared rewrites: the trait-dispatched call is replaced by its result as a parameter)"""
    f = repo + '/src/from.rs'
    u = {'self_ty': 'uint', 'uint': True, 'group': 'conv2', 'externs': UINT_EXTERNS, 'file': f}
    to_err = ('result', 'uint', ('enum', 'ToUintError', ['uint']))
    from_err = ('result', 'u64', ('enum', 'FromUintError', ['u64']))
    out = []
    for fn in ('from', 'saturating_from', 'wrapping_from'):
        out.append(dict(u, fn=fn, lean='uint_%s_res' % fn, key='Uint::%s_res' % fn, after='pub fn %s<T>(value: T) -> Self' % fn,
                        rewrite=[(r'Self::uint_try_from\(value\)', 'value')], typarams_ty={'T': to_err}))
    for fn in ('wrapping_to', 'saturating_to'):
        out.append(dict(u, fn=fn, lean='uint_%s_res' % fn, key='Uint::%s_res' % fn,
                        rewrite=[(r'self\.uint_try_to\(\)', 'res'), (r'fn %s<T>\(&self\) -> T' % fn, 'fn %s<T, R>(res: R) -> T' % fn)],
                        typarams_ty={'T': 'u64', 'R': from_err}))
    for t, ut in (('i8', 'u8'), ('i16', 'u16'), ('i32', 'u32'), ('i64', 'u64'), ('isize', 'usize'), ('i128', 'u128')):
        # `Self::try_from(value as $uint)`: TryFrom<u128> for u128, else (through `impl_from_unsigned_int!`: `value as u64`) TryFrom<u64>
        out.append(dict(u, fn='try_from', lean='uint_try_from_%s' % t, key='Uint::try_from_%s' % t,
                        after='TryFrom<$int> for Uint<BITS, LIMBS>', subst={'$int': t, '$uint': ut},
                        call_alias={'try_from': 'Uint::try_from_u128' if ut == 'u128' else 'Uint::try_from_u64'}))
    return out


def float_value_items(repo):
    """`TryFrom<f64> for Uint` (src/from.rs) in value mode: an `f64` is its IEEE-754 bit pattern, the float operators and
    methods are the binary64 model's (`Ruint.Float`: `lt`, `ge`, `add`, `fmod`, `abs`, `isNaN`, `isNormal`, `exp2Int`), the
    function's two recursive calls are recursion on fuel"""
    return [{'file': repo + '/src/from.rs', 'fn': 'try_from', 'lean': 'val_try_from_f64', 'key': 'UintV::try_from_f64',
             'after': 'TryFrom<f64> for Uint<BITS, LIMBS>', 'uint': 'value', 'self_ty': 'uint', 'group': 'floatv', 'recursive': True},
            {'file': repo + '/src/from.rs', 'fn': 'try_from', 'lean': 'val_try_from_f32', 'key': 'UintV::try_from_f32',
             'after': 'TryFrom<f32> for Uint<BITS, LIMBS>', 'uint': 'value', 'self_ty': 'uint', 'group': 'floatv'}]


def to_float_items(repo):
    """`From<&Uint> for f64` / `f32` (src/from.rs), limb mode over the generated `most_significant_bits`: `(bits as Self) *
    (exponent as Self).exp2()` with the casts, the product and `exp2` of an integer as the IEEE model's `ofNat`, `mul`, `exp2Int`"""
    f = repo + '/src/from.rs'
    return [{'file': f, 'fn': 'from', 'lean': 'f64_from_uint', 'key': 'f64::from_uint', 'group': 'tofloat', 'uint': True,
             'self_ty': 'f64', 'after': 'From<&Uint<BITS, LIMBS>> for f64'},
            {'file': f, 'fn': 'from', 'lean': 'f32_from_uint', 'key': 'f32::from_uint', 'group': 'tofloat', 'uint': True,
             'self_ty': 'f32', 'after': 'From<&Uint<BITS, LIMBS>> for f32'}]


SHIFT_TYPES = ('usize', 'u8', 'u16', 'u32', 'isize', 'i8', 'i16', 'i32', 'u64', 'i64')


def int_shift_items(repo):
    """the `@main` and `@assign` arms of `impl_shift!` (src/bits.rs) instantiated for every integer type of its invocations:
    `Shl<$u>` / `Shr<$u>` (`self.wrapping_shl(rhs as usize)` — the cast sign-extends signed amounts) and `ShlAssign<$u>` /
    `ShrAssign<$u>` (`*self = *self << rhs`)"""
    f = repo + '/src/bits.rs'
    src = open(f).read()
    found = []
    for m in re.finditer(r'^impl_shift!\(([^)@]*)\);', src, re.M):
        found += [x.strip() for x in m.group(1).split(',') if x.strip()]
    u = {'self_ty': 'uint', 'uint': True, 'group': 'intshift', 'externs': UINT_EXTERNS, 'file': f}
    out = []
    for t in found:
        for fn in ('shl', 'shr'):
            out.append(dict(u, fn=fn, lean='uint_%s_%s' % (fn, t), key='Uint::%s_%s' % (fn, t), after='(@main $u:ty)', subst={'$u': t}))
        for fn in ('shl_assign', 'shr_assign'):
            out.append(dict(u, fn=fn, lean='uint_%s_%s' % (fn, t), key='Uint::%s_%s' % (fn, t), after='(@assign $u:ty)', subst={'$u': t}))
    return out


def facade_items(repo):
    """the num-traits / num-integer trait impls for `Uint` (src/support/num_traits.rs, num_integer.rs): one item per method of
    every `impl … Trait for Uint<BITS, LIMBS>` block, named `nt_<Trait>_<fn>` / `ni_<Trait>_<fn>`. Optional items: a method
    outside the translated subset is skipped (the theorems of C20 name the ones that are tied)."""
    out = []
    for fname, pfx in (('num_traits.rs', 'nt'), ('num_integer.rs', 'ni')):
        f = repo + '/src/support/' + fname
        try:
            src = open(f).read()
        except (OSError, IOError):
            continue
        cut = re.search(r'#\[cfg\(test\)\]\s*mod\s', src)
        body = src[:cut.start()] if cut else src
        for m in re.finditer(r'(impl<const BITS: usize, const LIMBS: usize>\s+([A-Za-z0-9_]+)(<[^{]*?>)?\s+for\s+Uint<BITS, LIMBS>)\s*\{', body):
            hdr, trait, targs = m.group(1), m.group(2), m.group(3) or ''
            # the block: up to the matching brace
            k = m.end()
            depth = 1
            while depth and k < len(body):
                depth += (body[k] == '{') - (body[k] == '}')
                k += 1
            blk = body[m.end():k]
            tag = trait + re.sub(r'[^A-Za-z0-9]+', '_', targs).strip('_')
            for fm in re.finditer(r'\bfn\s+([a-z_0-9]+)\s*[<(]', blk):
                out.append({'file': f, 'fn': fm.group(1), 'lean': '%s_%s_%s' % (pfx, tag, fm.group(1)),
                            'key': 'Facade::%s::%s::%s' % (pfx, tag, fm.group(1)), 'after': hdr, 'uint': True, 'self_ty': 'uint',
                            'group': 'facade', 'externs': UINT_EXTERNS, 'optional': True,
                            # `<Self>::shl(self, n as usize)`: the `Shl<usize>` operator impl (the generated `@main` arm)
                            'call_alias': {'shl': 'Uint::shl_usize', 'shr': 'Uint::shr_usize'}})
    return out


def der_items(repo):
    """the two DER content decoders of src/support/der.rs (`from_der_slice`, `from_der_uint_slice`): slice patterns with guards,
    `?` on the matched `Result`, `ok_or_else`, over the generated `try_from_be_slice`. Declared rewrites: the three error
    constructors of the `der` crate become the codes 0 (length), 1 (non-canonical), 2 (value), and `der::Result<T>` is
    `Result<T, u64>`."""
    f = repo + '/src/support/der.rs'
    sub = {'Tag::Integer.length_error()': '0u64', 'Tag::Integer.non_canonical_error()': '1u64', 'Tag::Integer.value_error()': '2u64',
           ') -> Result<Uint<BITS, LIMBS>> {': ') -> Result<Uint<BITS, LIMBS>, u64> {',
           # the free functions name the type as `Uint` (its parameters are inferred from the return type): `Self` here
           'Uint::try_from_be_slice': 'Self::try_from_be_slice', 'Uint::ZERO': 'Self::ZERO'}
    u = {'file': f, 'uint': True, 'self_ty': 'uint', 'group': 'der', 'externs': UINT_EXTERNS, 'subst': sub,
         'call_alias': {}}
    return [dict(u, fn='from_der_slice', lean='der_from_der_slice', key='der::from_der_slice'),
            dict(u, fn='from_der_uint_slice', lean='der_from_der_uint_slice', key='der::from_der_uint_slice')]


def str_items(repo):
    """`Uint::from_str_radix` (src/string.rs), limb mode over the generated `from_base_be`: a `&str` is the sequence of its
    characters (code points), `src.chars().filter_map(|c| …)` is evaluated eagerly (see `desugar`), `char` literal and range
    patterns, `u64::from(c)`, the `err` latch, `?` with `From<BaseConvertError> for ParseError`, `err.map_or(Ok(value), Err)`"""
    return [{'file': repo + '/src/string.rs', 'fn': 'from_str_radix', 'lean': 'uint_from_str_radix', 'key': 'Uint::from_str_radix',
             'uint': True, 'self_ty': 'uint', 'group': 'str', 'externs': UINT_EXTERNS,
             'enum_files': [repo + '/src/base_convert.rs']},
            # `FromStr::from_str`: the prefix sniffing (`is_char_boundary(2)`, `split_at(2)`, the match on "0x" | "0X" | …)
            {'file': repo + '/src/string.rs', 'fn': 'from_str', 'lean': 'uint_from_str', 'key': 'Uint::from_str',
             'after': 'FromStr for Uint<BITS, LIMBS>', 'uint': True, 'self_ty': 'uint', 'group': 'str', 'externs': UINT_EXTERNS,
             'enum_files': [repo + '/src/base_convert.rs'], 'str_params': True}]


def bits_forward_items(repo):
    """the methods of `Bits` generated by the `forward!` macro of src/bit_arr.rs: every line of every `forward! { … }` invocation
    is matched against the macro's arms in order (receiver form, `const` / `unsafe`, literal return type or a `$res` wildcard —
    what `macro_rules!` does), the matching arm's body is instantiated, and the result is translated as a method of `Uint`:
    `Bits` is a transparent wrapper (`self.0`, `.into()`, `Bits::from`, `Bits(..)` are the identity — declared). Optional items."""
    f = repo + '/src/bit_arr.rs'
    try:
        src = open(f).read()
    except (OSError, IOError):
        return []
    m0 = re.search(r'macro_rules! forward \{', src)
    if not m0:
        return []
    k = m0.end()
    depth = 1
    while depth and k < len(src):
        depth += (src[k] == '{') - (src[k] == '}')
        k += 1
    mac = src[m0.end():k - 1]
    arms = []
    for am in re.finditer(r'\(\$\((.*?)\)\*\) => \{(.*?)\n    \};', mac, re.S):
        pat, body = am.group(1), am.group(2)
        fm = re.search(r'pub\s+((?:const\s+|unsafe\s+)?)fn\s+\$fnname.*?\)\s*->\s*([^{]*?)\s*\{(.*?)\n\s*\}', body, re.S)
        if not fm:
            continue
        recv = ('&mut self' if '(&mut self)' in pat else '&self' if '(&self)' in pat else
                'self,' if '(self, $arg' in pat else 'self' if '(self)' in pat else 'none')
        ret = re.search(r'->\s*(.*?);\s*$', pat.strip(), re.S).group(1).strip()
        arms.append({'qual': fm.group(1).strip(), 'recv': recv, 'ret': ret, 'body': fm.group(3).strip()})
    out = []
    for inv in re.finditer(r'forward!\s*\{(.*?)\n    \}', src[k:], re.S):
        for line in re.split(r';\s*\n', inv.group(1) + '\n'):
            line = line.strip().rstrip(';')
            lm = re.fullmatch(r'((?:const\s+|unsafe\s+)?)fn\s+(\w+)\s*(<[^>]*>)?\s*\((.*)\)\s*->\s*(.*)', line, re.S)
            if not lm:
                continue
            qual, name, gen, params, ret = lm.group(1).strip(), lm.group(2), lm.group(3) or '', lm.group(4).strip(), lm.group(5).strip()
            recv = ('&mut self' if params == '&mut self' else '&self' if params == '&self' else 'self' if params == 'self' else
                    'self,' if params.startswith('self,') else 'none')
            arm = None
            for a in arms:
                if a['qual'] == qual and a['recv'] == recv and (a['ret'] == ret or a['ret'].startswith('$res')
                                                               or (a['ret'].startswith('Result<Self') and ret.startswith('Result<Self'))):
                    arm = a
                    break
            if arm is None:
                continue
            args = [x.split(':')[0].strip() for x in params.split(',') if ':' in x]
            body = arm['body'].replace('$fnname', name).replace('$($arg),+', ', '.join(args))
            if args:
                body = body.replace('$arg', args[0])
            # `Bits` is `#[repr(transparent)] struct Bits(Uint)`: wrapping and unwrapping are the identity
            body = re.sub(r'\.map\(Bits::from\)', '', body)
            body = re.sub(r'\.into\(\)', '', body)
            body = re.sub(r'\bBits\((Uint::.*)\)\s*$', r'\1', body, flags=re.S)
            body = body.replace('&mut self.0', 'self').replace('&self.0', 'self').replace('self.0', 'self').replace('Uint::', 'Self::')
            text = 'pub fn %s%s(%s) -> %s {\n%s\n}' % (name, gen, params, ret.replace('Self', 'Uint<BITS, LIMBS>') if False else ret, body)
            out.append({'file': f, 'fn': name, 'lean': 'bits_%s' % name, 'key': 'Bits::%s' % name, 'uint': True, 'self_ty': 'uint',
                        'group': 'bitsfwd', 'externs': UINT_EXTERNS, 'optional': True, 'text': text,
                        'enum_files': [repo + '/src/string.rs', repo + '/src/base_convert.rs']})
    return out


def trait_misc_items(repo):
    """the one-line trait impls of the core: `Neg` (by value / by reference), `Not` (by value / by reference), `PartialOrd`,
    `Default`, `as_limbs`, `into_limbs` — optional items (`Self::Output` is `Self`)"""
    u = {'uint': True, 'self_ty': 'uint', 'group': 'traitmisc', 'externs': UINT_EXTERNS, 'optional': True,
         'subst_after': {'Self::Output': 'Self', '-> Uint<BITS, LIMBS>': '-> Self'}}
    a, b, c, l = repo + '/src/add.rs', repo + '/src/bits.rs', repo + '/src/cmp.rs', repo + '/src/lib.rs'
    return [dict(u, file=a, fn='neg', lean='op_neg_val', key='Op::neg_val', after='Neg for Uint<BITS, LIMBS>'),
            dict(u, file=a, fn='neg', lean='op_neg_ref', key='Op::neg_ref', after='Neg for &Uint<BITS, LIMBS>'),
            dict(u, file=b, fn='not', lean='op_not_val', key='Op::not_val', after='Not for Uint<BITS, LIMBS>'),
            dict(u, file=b, fn='not', lean='op_not_ref', key='Op::not_ref', after='Not for &Uint<BITS, LIMBS>'),
            dict(u, file=c, fn='partial_cmp', lean='uint_partial_cmp', key='Uint::partial_cmp'),
            dict(u, file=l, fn='default', lean='uint_default', key='Uint::default', after='Default for Uint<BITS, LIMBS>'),
            dict(u, file=l, fn='as_limbs', lean='uint_as_limbs', key='Uint::as_limbs'),
            dict(u, file=l, fn='into_limbs', lean='uint_into_limbs', key='Uint::into_limbs')]


def utils_items(repo):
    """src/utils.rs: `rem_up`, `last_idx`, `trim_end_slice`, `trim_end_vec` (generic element type read as a word) — optional"""
    f = repo + '/src/utils.rs'
    u = {'file': f, 'group': 'utils', 'optional': True, 'typarams_ty': {'T': 'u64'}}
    return [dict(u, fn='rem_up', lean='utils_rem_up'), dict(u, fn='last_idx', lean='utils_last_idx'),
            dict(u, fn='trim_end_slice', lean='utils_trim_end_slice'), dict(u, fn='trim_end_vec', lean='utils_trim_end_vec')]


def macro_items(repo):
    """`pad_limbs` of the `uint!` proc macro (ruint-macro/src/lib.rs): trim / pad to the limb count and the range check"""
    f = repo + '/ruint-macro/src/lib.rs'
    # `parse_digits`: the error strings (`format!(..)`) are the codes (0, c, 0) "Invalid character" / (1, c, base) "Invalid digit"
    rw = [(r'format!\("Invalid character \'\{c\}\'"\)', '(0u64, c as u64, 0u64)'),
          (r'format!\(\s*"Invalid digit \{c\} in base \{base\}[^"]*"\s*\)', '(1u64, c as u64, base as u64)'),
          (r'-> Result<Vec<u64>, String>', '-> Result<Vec<u64>, (u64, u64, u64)>')]
    return [{'file': f, 'fn': 'pad_limbs', 'lean': 'macro_pad_limbs', 'group': 'macro'},
            {'file': f, 'fn': 'parse_digits', 'lean': 'macro_parse_digits', 'group': 'macro2', 'rewrite': rw,
             'str_params': 'panics', 'str_vars': ('value', 'digits', 'prefix', 'remainder')}]


def log_value_items(repo):
    """src/log.rs in value mode: `log` with the libm-derived first estimate as a parameter (declared rewrite: the three lines
    computing `approx_log2() / approx_log2()` and converting it are replaced by `est`), its two correction loops
    (`if let Some` / `while let Some` over `checked_pow` / `checked_add`), and the wrappers `checked_log`, `checked_log2/10`, `log2/10`"""
    f = repo + '/src/log.rs'
    u = {'uint': 'value', 'group': 'logv', 'self_ty': 'uint', 'file': f}
    rw = [(r'let result = self\.approx_log2\(\) / base\.approx_log2\(\);\s*(?://[^\n]*\s*)*assert!\(result\.is_normal\(\)\);\s*let mut result = result\.try_into\(\)\.unwrap\(\);',
           'let mut result = est;'),
          (r'fn log\(self, base: Self\) -> usize', 'fn log(self, base: Self, est: Self) -> usize')]
    est = [(r'self\.log\(base\)', 'self.log(base, est)')]
    cl = [(r'self\.checked_log\(base\)', 'self.checked_log(base, est)')]
    return [dict(u, fn='log', lean='val_log', key='UintV::log', rewrite=rw),
            dict(u, fn='checked_log', lean='val_checked_log', key='UintV::checked_log',
                 rewrite=est + [(r'fn checked_log\(self, base: Self\)', 'fn checked_log(self, base: Self, est: Self)')]),
            dict(u, fn='checked_log10', lean='val_checked_log10', key='UintV::checked_log10',
                 rewrite=cl + [(r'fn checked_log10\(self\)', 'fn checked_log10(self, est: Self)')]),
            dict(u, fn='checked_log2', lean='val_checked_log2', key='UintV::checked_log2',
                 rewrite=cl + [(r'fn checked_log2\(self\)', 'fn checked_log2(self, est: Self)')]),
            dict(u, fn='log10', lean='val_log10', key='UintV::log10', rewrite=est + [(r'fn log10\(self\)', 'fn log10(self, est: Self)')]),
            dict(u, fn='log2', lean='val_log2', key='UintV::log2', rewrite=est + [(r'fn log2\(self\)', 'fn log2(self, est: Self)')])]


def root_value_items(repo):
    """src/root.rs in value mode: `root` with the libm-derived first guess as a parameter (declared rewrite: the
    `approx_pow2(approx_log2() / degree)` line is replaced by `guess`); the Newton loop with its `match` on
    `(decreasing, iter.cmp(&result))` is translated"""
    f = repo + '/src/root.rs'
    rw = [(r'let mut result = Self::approx_pow2\(self\.approx_log2\(\) / degree as f64\)\.unwrap\(\);', 'let mut result = guess;'),
          (r'fn root\(self, degree: usize\) -> Self', 'fn root(self, degree: usize, guess: Self) -> Self')]
    return [{'uint': 'value', 'group': 'rootv', 'self_ty': 'uint', 'file': f, 'fn': 'root', 'lean': 'val_root',
             'key': 'UintV::root', 'rewrite': rw, 'div_panics': True}]


def radix_items(repo):
    """src/base_convert.rs: digit-sequence conversions (limb mode; errors are (variant index, fields))"""
    f = repo + '/src/base_convert.rs'
    u = {'file': f, 'self_ty': 'uint', 'uint': True, 'group': 'radix', 'externs': UINT_EXTERNS}
    return [dict(u, fn='from_base_be', lean='uint_from_base_be', key='Uint::from_base_be'),
            dict(u, fn='from_base_le', lean='uint_from_base_le', key='Uint::from_base_le'),
            {'file': f, 'fn': 'next', 'lean': 'spigot_next', 'key': 'SpigotLittle::next', 'group': 'radix',
             'after': 'Iterator for SpigotLittle', 'self_fields': [('base', 'u64'), ('limbs', 'mutslice')]}]


GROUPS = [('core', 'Words', ('Ruint.Gen.Prelude',)),
          ('kernels', 'WordsKernels', ('Ruint.Gen.Words',)),
          ('uint', 'WordsUint', ('Ruint.Gen.Words', 'Ruint.Gen.WordsKernels', 'Ruint.Base', 'Ruint.Model.MulKernels')),
          ('lehmer', 'WordsLehmer', ('Ruint.Gen.Prelude',)),
          ('redc', 'WordsRedc', ('Ruint.Gen.Words',)),
          ('redcloops', 'WordsRedcLoops', ('Ruint.Gen.WordsRedc',)),
          ('div', 'WordsDiv', ('Ruint.Gen.Words',)),
          ('divloops', 'WordsDivLoops', ('Ruint.Gen.WordsDiv',)),
          ('knuth', 'WordsKnuth', ('Ruint.Gen.WordsDivLoops', 'Ruint.Gen.WordsKernels')),
          ('uintdiv', 'WordsUintDiv', ('Ruint.Gen.WordsUint', 'Ruint.Gen.WordsKnuth')),
          ('radix', 'WordsRadix', ('Ruint.Gen.WordsUint',)),
          ('uintmod', 'WordsUintMod', ('Ruint.Gen.WordsUintDiv', 'Ruint.Gen.WordsRedcLoops')),
          ('bytes', 'WordsBytes', ('Ruint.Gen.WordsUintMod', 'Ruint.Gen.PreludeBytes')),
          ('conv', 'WordsConv', ('Ruint.Gen.WordsUintMod',)),
          ('fls', 'WordsFls', ('Ruint.Gen.WordsUintMod',)),
          ('conv2', 'WordsConv2', ('Ruint.Gen.WordsConv', 'Ruint.Gen.PreludeRes')),
          ('shiftops', 'WordsShiftOps', ('Ruint.Gen.WordsUint',)),
          ('binops', 'WordsBinOps', ('Ruint.Gen.WordsUintDiv',)),
          ('bitops', 'WordsBitOps', ('Ruint.Gen.WordsUint',)),
          ('folds', 'WordsFolds', ('Ruint.Gen.WordsUint',)),
          ('macro', 'WordsMacro', ('Ruint.Gen.Prelude',)),
          ('value', 'WordsValue', ('Ruint.Gen.Prelude', 'Ruint.Model.Modular')),
          ('gcdv', 'WordsGcd', ('Ruint.Gen.Prelude', 'Ruint.Model.Gcd')),
          ('logv', 'WordsLog', ('Ruint.Gen.WordsValue', 'Ruint.Gen.PreludeRes')),
          ('rootv', 'WordsRoot', ('Ruint.Gen.WordsValue', 'Ruint.Gen.PreludeRes')),
          ('floatv', 'WordsFloat', ('Ruint.Gen.WordsValue', 'Ruint.Gen.PreludeRes', 'Ruint.Model.Float')),
          ('tofloat', 'WordsToFloat', ('Ruint.Gen.WordsUint', 'Ruint.Model.Float')),
          ('intshift', 'WordsIntShift', ('Ruint.Gen.WordsUint',)),
          ('facade', 'WordsFacade', ('Ruint.Gen.WordsUint', 'Ruint.Gen.WordsUintDiv', 'Ruint.Gen.WordsUintMod', 'Ruint.Gen.WordsIntShift',
                                     'Ruint.Gen.WordsBytes', 'Ruint.Gen.WordsConv', 'Ruint.Gen.WordsConv2')),
          ('der', 'WordsDer', ('Ruint.Gen.WordsBytes',)),
          ('str', 'WordsStr', ('Ruint.Gen.WordsRadix', 'Ruint.Gen.PreludeRes', 'Ruint.Gen.PreludeStr')),
          ('macro2', 'WordsMacro2', ('Ruint.Gen.Prelude', 'Ruint.Gen.PreludeRes', 'Ruint.Gen.PreludeStr')),
          ('utils', 'WordsUtils', ('Ruint.Gen.Prelude',)),
          ('traitmisc', 'WordsTraitMisc', ('Ruint.Gen.WordsUint', 'Ruint.Gen.WordsUintMod')),
          ('bitsfwd', 'WordsBitsFwd', ('Ruint.Gen.WordsUint', 'Ruint.Gen.WordsBytes', 'Ruint.Gen.WordsStr', 'Ruint.Gen.WordsUintMod'))]


def translate_all(repo):
    """-> {module name: lean source}, errors"""
    fns = {}
    files = {'Prelude': PRELUDE, 'PreludeBytes': PRELUDE_BYTES, 'PreludeRes': PRELUDE_RES, 'PreludeStr': PRELUDE_STR}
    errors = []
    items = default_items(repo)
    items += uint_items(repo)
    items += kernel_items(repo)
    items += redc_loop_items(repo)
    items += div_loop_items(repo)
    items += knuth_items(repo)
    items += uint_div_items(repo)
    items += radix_items(repo)
    items += uint_mod_items(repo)
    items += bytes_items(repo)
    items += conv_items(repo)
    items += fls_items(repo)
    items += conv2_items(repo)
    items += shift_op_items(repo)
    items += bin_op_items(repo)
    items += bit_op_items(repo)
    items += fold_items(repo)
    items += macro_items(repo)
    items += value_items(repo)
    items += gcd_value_items(repo)
    items += log_value_items(repo)
    items += root_value_items(repo)
    items += float_value_items(repo)
    items += to_float_items(repo)
    items += int_shift_items(repo)
    items += facade_items(repo)
    items += der_items(repo)
    items += str_items(repo)
    items += bits_forward_items(repo)
    items += trait_misc_items(repo)
    items += utils_items(repo)
    try:
        items += lehmer_items(repo)
    except (OSError, IOError) as ex:
        errors.append('lehmer: %s' % ex)
    for g, modname, imports in GROUPS:
        code, errs = translate(items, imports=imports, fns=fns, only_group=g)
        files[modname] = code
        errors += errs
    return files, errors


if __name__ == '__main__':
    repo = sys.argv[1] if len(sys.argv) > 1 else '/repo'
    files, errs = translate_all(repo)
    for k, v in files.items():
        sys.stdout.write('-- ==== %s ====\n%s\n' % (k, v))
    for e in errs:
        sys.stderr.write('ERROR ' + e + '\n')
