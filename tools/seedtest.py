#!/usr/bin/env python3
"""Run registered checks against seeded changes without touching /repo:
   tools/seedtest.py [--props C01,C05] [--tier quick] <seed dir>...
Each seed dir holds patch.diff + meta.json {"property": ...}. A scratch worktree of /repo HEAD is created,
the patch applied, `VERIF_REPO=<wt> ./check <prop>` run, the verdict printed and appended to seeded/results.jsonl."""
import argparse, json, os, subprocess, sys, time
ROOT = os.path.dirname(os.path.dirname(os.path.abspath(__file__)))
WT = '/tmp/seedrun_wt'


def sh(cmd, **kw):
    return subprocess.run(cmd, capture_output=True, text=True, **kw)


def main():
    ap = argparse.ArgumentParser()
    ap.add_argument('seeds', nargs='+')
    ap.add_argument('--props', default=None)
    ap.add_argument('--tier', default='quick')
    ap.add_argument('--wt', default=WT)
    a = ap.parse_args()
    wt = a.wt
    if not os.path.exists(wt):
        r = sh(['git', '-C', '/repo', 'worktree', 'add', '--detach', wt, 'HEAD'])
        if r.returncode:
            sys.exit(r.stderr)
    for sd in a.seeds:
        meta = json.load(open(os.path.join(sd, 'meta.json')))
        props = a.props.split(',') if a.props else [meta['property']]
        head = sh(['git', '-C', '/repo', 'rev-parse', 'HEAD']).stdout.strip()
        sh(['git', '-C', wt, 'checkout', '-q', '--detach', head])
        sh(['git', '-C', wt, 'reset', '-q', '--hard', head])
        subprocess.run(['cp', '/repo/Cargo.lock', os.path.join(wt, 'Cargo.lock')])
        patch = os.path.abspath(os.path.join(sd, 'patch.diff'))
        r = sh(['git', '-C', wt, 'apply', patch])
        if r.returncode:
            r = sh(['git', '-C', wt, 'apply', '--3way', patch])
        if r.returncode:
            print('%s: PATCH DOES NOT APPLY at %s: %s' % (sd, head[:7], r.stderr.strip()[:300]))
            sh(['git', '-C', wt, 'reset', '-q', '--hard', head])
            continue
        for p in props:
            t = time.time()
            r = sh([os.path.join(ROOT, 'check'), p, '--tier', a.tier], cwd=ROOT, env=dict(os.environ, VERIF_REPO=wt))
            vio = [l for l in r.stdout.split('\n') if l.startswith('VIOLATION') or l.startswith('MACHINERY') or l.startswith('MODEL-ERROR')]
            verdict = 'CAUGHT' if r.returncode == 1 and any(l.startswith('VIOLATION') for l in vio) else ('MISSED' if r.returncode == 0 else 'ERROR rc=%d' % r.returncode)
            print('%s %s: %s (%.0fs) %s' % (os.path.basename(sd.rstrip('/')), p, verdict, time.time() - t, vio[0][:200] if vio else ''))
            if verdict.startswith('ERROR'):
                print(r.stdout[-600:], r.stderr[-200:])
            with open(os.path.join(ROOT, 'seeded', 'results.jsonl'), 'a') as f:
                f.write(json.dumps({'seed': os.path.basename(sd.rstrip('/')), 'property': p, 'verdict': verdict, 'tier': a.tier,
                                    'repo_head': head[:7], 'line': vio[0] if vio else '', 'at': time.strftime('%Y-%m-%dT%H:%M:%SZ', time.gmtime())}) + '\n')
        sh(['git', '-C', wt, 'reset', '-q', '--hard', head])


main()
