#!/usr/bin/env python3
"""Regenerate MANIFEST.json from tools/claims.json (per-property level text) and properties.jsonl."""
import json, os, subprocess
ROOT = os.path.dirname(os.path.dirname(os.path.abspath(__file__)))
props = [json.loads(l) for l in open(os.path.join(ROOT, 'properties.jsonl'))]
claims = json.load(open(os.path.join(ROOT, 'tools', 'claims.json')))
hooks = subprocess.run(['git', '-C', '/repo', 'log', '--format=%h %s'], capture_output=True, text=True).stdout.split('\n')
hook_commits = [l.split(' ')[0] for l in hooks if ' verif hooks:' in l]
man = {
    "version": 1,
    "setup_cmd": "./setup.sh",
    "hooks": {
        "guard": "cargo feature recmo_uint_verif",
        "enable": "harness/Cargo.toml depends on ruint (path=/repo) with features [recmo_uint_verif + every codec/facade feature]; each check rebuilds its harness bin from the working tree",
        "baseline_off_cmd": "cd /repo && cargo test --workspace --no-fail-fast --offline",
        "source_commits": sorted(hook_commits),
        "add_only": True,
    },
    "engines": [
        {"name": "lean-proofs", "path": "lean/", "serves_properties": [],
         "kind_free_text": "Lean 4 theorems (kernel-checked, axioms audited with #print axioms) about executable models of the Rust algorithms (lean/Ruint/Model), property statements in lean/Ruint/Props"},
        {"name": "correspondence", "path": "tools/vlib.py", "serves_properties": [],
         "kind_free_text": "three-column differential check impl|model|spec: Rust harness calling the real code in-process (harness/), compiled Lean driver running the same model definitions the theorems are about (lean/Ruint/Drv)"},
        {"name": "rs2lean-translator", "path": "tools/rs2lean.py", "serves_properties": claims.get('_translator_serves', []),
         "kind_free_text": "regenerates Lean definitions of the straight-line word kernels (and constants/tables) from the Rust source on every run (lean/Ruint/Gen); theorems are re-checked against the regenerated definitions"},
    ],
    "checks": [],
    "not_applicable": [],
    "notes": "See DESIGN.md (§0 as built). Exit codes: 0 held (KNOWN-FINDING lines possible), 1 VIOLATION, 2 machinery error. Hooks: every /repo commit is either `verif hooks:` (guarded by the cargo feature, net diff add-only: f25cafd had turned nine match arms into blocks, ee9fb1a restores those lines and re-expresses the counters as added statements) or `fix:` (unguarded minimal repairs, listed in known_findings.json). Seeded changes and verdicts: seeded/, DESIGN.md §13.",
}
for p in props:
    pid = p['id']
    c = claims.get(pid)
    if c and c.get('claimed'):
        man['checks'].append({
            "property_id": pid,
            "quick_cmd": "./check %s --tier quick" % pid,
            "thorough_cmd": "./check %s --tier thorough" % pid,
            "evidence_file": "evidence/%s.json" % pid,
            "replay_cmd_template": "./check %s --replay {path}" % pid,
            "engine": "lean-proofs+correspondence",
            "level_claimed": {"category": "proof", "text": c['text'], "design_ref": "DESIGN.md §8 " + pid},
            "level_note": c.get('note', "Trusted: Lean 4.33 kernel + Mathlib as checked by it; axioms propext, Classical.choice, Quot.sound only (audited every run); the statements in lean/Ruint/Props/%s.lean; the correspondence harness (tools/, harness/, lean/Ruint/Drv). The theorems are about the Lean model; the tie to the Rust code is the differential correspondence of every run plus the definitions regenerated from source where stated." % pid),
            "technique": c.get('technique', "Lean 4 proof about a limb-level model + in-process differential correspondence"),
        })
        for e in man['engines'][:2]:
            e['serves_properties'].append(pid)
    else:
        man['not_applicable'].append({"property_id": pid, "reason": (c or {}).get('reason', "check under construction in this session (model and theorems planned in DESIGN.md §8); not yet claimed")})
json.dump(man, open(os.path.join(ROOT, 'MANIFEST.json'), 'w'), indent=1)
print('claimed:', [c['property_id'] for c in man['checks']])
